#!/usr/bin/env python3
"""Regenerates /verif/seeded/README.md from the meta.json files."""
import json, os
root = "/verif/seeded"
rows = []
for d in sorted(os.listdir(root)):
    p = os.path.join(root, d, "meta.json")
    if not os.path.exists(p):
        continue
    m = json.load(open(p))
    rows.append((d, m))
out = ["# Seeded changes", "",
       "Each directory holds `patch.diff` (the change to y-crdt/y-crdt), `demo.diff` (a test that fails with the change and",
       "passes without it) and `meta.json` (property, what the change needs to manifest, what was run, what the check said).",
       "All changes were written by fresh sub-agents that saw only the property text and a scratch worktree; each was",
       "re-confirmed with `tools/confirm_seed.sh` (suite with the patch, demonstration with / without the patch) and tried",
       "with `tools/try_seed.sh` (apply to /repo, run the property's check, undo). None was ever committed to /repo.", "",
       "| id | property | change | needs | check verdict |", "|---|---|---|---|---|"]
for d, m in rows:
    v = m["check"]["verdict"]
    if m.get("note"):
        v += " — " + m["note"]
    out.append("| %s | %s | %s | %s | %s |" % (d, m["property"], (m.get("summary") or "").replace("|", "/")[:220],
                                             (m.get("needs") or "").replace("|", "/").replace("\n", " ")[:220], v))
out += ["", "Rejected (not kept): round-1 C09 change 1 (`write_var_i64` first-byte threshold `> 0b01000000`): detected by",
        "`c09::r1_var_i8/i16/…` with a native reproduction, but in my confirmation run the pinned suite's",
        "`types::array::test::fuzzy_test_300` failed with it, so it does not satisfy 'passes the existing tests'.", ""]
open(os.path.join(root, "README.md"), "w").write("\n".join(out) + "\n")
print("\n".join(out[-len(rows) - 6:]))
