#!/bin/bash
# try_seed.sh <seed_dir> <PROP> [extra check args]: apply a seeded change to /repo, run the check, undo.
SD="$1"; P="$2"; shift 2
cd /repo || exit 2
[ -z "$(git status --porcelain)" ] || { echo "/repo not clean"; exit 2; }
git apply "$SD/patch.diff" || { echo "patch does not apply"; exit 2; }
cd /verif
./check "$P" --no-evidence "$@" > "$SD/check_$P.log" 2>&1
RC=$?
git -C /repo checkout -- .
echo "seed $SD vs $P: exit=$RC"
grep -E "^VIOLATION|^KNOWN-FINDING|^PROBLEM|violated|^== " "$SD/check_$P.log" | cut -c1-220
