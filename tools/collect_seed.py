#!/usr/bin/env python3
"""collect_seed.py <seed_dir> <seeded id> : copy a confirmed seeded change into /verif/seeded/<id>/ with
what was run (confirmation in a scratch worktree) and what the check said."""
import json, os, re, shutil, sys
sd, sid = sys.argv[1], sys.argv[2]
dst = os.path.join("/verif/seeded", sid)
os.makedirs(dst, exist_ok=True)
meta = json.load(open(os.path.join(sd, "meta.json")))
for f in ("patch.diff", "demo.diff"):
    shutil.copy(os.path.join(sd, f), os.path.join(dst, f))
conf = open(os.path.join(sd, "confirm.log")).read() if os.path.exists(os.path.join(sd, "confirm.log")) else ""
res = [l for l in conf.splitlines() if l.startswith("test result") or l.startswith("-- ") or l.startswith("== ")]
prop = meta.get("property")
chk = ""
p = os.path.join(sd, "check_%s.log" % prop)
if os.path.exists(p):
    chk = open(p).read()
lines = [l for l in chk.splitlines() if re.match(r"^(VIOLATION|KNOWN-FINDING|PROBLEM|== )", l) or " violated " in l]
m = re.search(r"== %s: .*" % prop, chk)
verdict = "detected (VIOLATION with native reproduction)" if "VIOLATION property=" in chk else (
    "flagged without reproduction (exit 2)" if "PROBLEM" in chk else ("missed (check passed)" if m else "not run"))
out = {
    "property": prop,
    "summary": meta.get("summary"),
    "needs": meta.get("needs"),
    "demo_cmd": meta.get("demo_cmd"),
    "author": "fresh sub-agent given only the property text and a scratch worktree",
    "agent_ran": meta.get("ran"),
    "confirmed_by_me": {"script": "/verif/tools/confirm_seed.sh (scratch worktree of /repo)", "log_excerpt": res},
    "check": {"cmd": "git -C /repo apply patch.diff && ./check %s --tier quick --no-evidence && git -C /repo checkout -- ." % prop,
              "verdict": verdict, "log_excerpt": [l[:240] for l in lines][:40]},
}
json.dump(out, open(os.path.join(dst, "meta.json"), "w"), indent=1)
print(sid, verdict)
