#!/bin/bash
# confirm_seed.sh <worktree> <seed_dir>  : confirms (1) suite passes with patch, (2) demo fails with patch, (3) demo passes without
WT="$1"; SD="$2"; OUT="$SD/confirm.log"
cd "$WT" || exit 2
git checkout -q -- . && git clean -qfd -e target
DEMO=$(python3 -c "import json;c=json.load(open('$SD/meta.json'))['demo_cmd'];print(c[c.rindex('cargo test'):])")
{
echo "== confirm $SD in $WT at $(git rev-parse --short HEAD)"
git apply "$SD/patch.diff" || { echo "PATCH DOES NOT APPLY"; exit 2; }
echo "-- suite with patch"
cargo test -p yrs --offline -j 4 --lib 2>&1 | grep -E "^test result|FAILED|failed" | head -8
git apply "$SD/demo.diff" || { echo "DEMO DOES NOT APPLY"; exit 2; }
echo "-- demo with patch (expect failure): $DEMO"
timeout 600 $DEMO 2>&1 | grep -E "^test result|panicked|FAILED|failed" | head -6
git apply -R "$SD/patch.diff" || echo "REVERT FAILED"
echo "-- demo without patch (expect pass)"
timeout 600 $DEMO 2>&1 | grep -E "^test result|panicked|FAILED" | head -4
git checkout -q -- . && git clean -qfd -e target
echo "== done"
} > "$OUT" 2>&1
