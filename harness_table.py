"""Table of harness instances: which #[kani::proof] functions of /verif/kani decide which property,
in which tier, with which bound. The driver (/verif/check) runs exactly what is listed here."""

STUBS = [
    "std::intrinsics::catch_unwind -> call try_fn, return false (Kani 0.68 ICE on the intrinsic; panic=abort)",
    "std::hash::RandomState::new -> fixed seeds (getrandom is a syscall); harnesses only construct empty maps",
    "alloc::fmt::format -> empty String (message text of Err values is in no property)",
]

ASSUMPTIONS = {
    "*": [
        "bounded model checking: the claim covers exactly the inputs inside each instance's stated bound; "
        "Kani's unwinding assertions are on, so a loop that could exceed the bound fails the run",
        "Kani models the dev profile (overflow checks and debug assertions on), no unwinding, "
        "a sequentially consistent single thread, and its own allocator",
        "trusted base: rustc MIR, Kani 0.68.0 codegen, CBMC 6.11.0, CaDiCaL",
    ],
}

_T = []


def h(name, prop, family, bound, tier="quick", required=True, mem=4, timeout=None, desc="",
      unwind_is_violation=False):
    _T.append(dict(name=name, prop=prop, family=family, bound=bound, tier=tier, required=required,
                   mem=mem, timeout=timeout, desc=desc, unwind_is_violation=unwind_is_violation))


# ------------------------------------------------------------------------------------------- C10
def c10(name, family, bound, desc="", **kw):
    kw.setdefault("unwind_is_violation", True)
    h("c10::" + name, "C10", family, bound, desc=desc, **kw)


VAR_TYPES = ["u8", "u16", "u32", "u64", "usize", "u128", "i8", "i16", "i32", "i64", "isize"]
for t in VAR_TYPES:
    c10("t1_read_var_%s" % t, "T1", "every byte string of length <= 11; unwind 13",
        "Cursor::read_var::<%s>" % t)
for t in ["i64", "i32", "isize", "i16", "i8"]:
    c10("t1_read_signed_%s" % t, "T1", "every byte string of length <= 11; unwind 13",
        "Cursor::read_var_signed::<%s>, sign flag consistent with value" % t)
c10("t1_cursor_fixed", "T1", "every byte string <= 11, two consecutive reads of any fixed-width / "
    "read_exact(u32 len) / read_buf / read_string reader", "Cursor fixed-width readers")

c10("t2_v2_new", "T2", "every byte string <= 12", "DecoderV2::new (column framing)")
for col in ["client", "left_clock", "right_clock", "info", "parent_info", "type_ref", "len", "string",
            "key_clock", "ds"]:
    c10("t2_col_%s_full" % col, "T2", "well-framed v2 buffer, column under test = every 6-byte string, "
        "2 reads", "DecoderV2 %s column reader" % col, timeout=900)
    c10("t2_col_%s_short" % col, "T2", "well-framed v2 buffer, column under test = every byte string "
        "of length 0..3, 2-3 reads", "DecoderV2 %s column reader (truncation)" % col,
        tier="thorough", required=False, timeout=1500)
c10("t2_col_range_full", "T2", "rest buffer = every 10-byte string", "Range<u32>::decode over DecoderV2")
for n in ["client_k8", "left_clock_k8", "info_k8", "len_k8", "string_k8", "ds_k10"]:
    c10("t2_col_" + n, "T2", "column under test = every byte string of length 0..8 (10), 3-4 reads",
        tier="thorough", required=False, mem=10, timeout=2400)

c10("t3_range_v1", "T3", "every byte string <= 6", "Range<u32>::decode v1")
for c in (0, 1, 2):
    c10("t3_id_range_v1_c%d" % c, "T3", "count byte = %d, every payload, every prefix length" % c,
        "IdRange::decode v1, ranges materialised")
c10("t3_id_range_count_v1", "T3", "every byte string <= 6, path cut at the first pushed element",
    "IdRange::decode: reservation made from the count field")
c10("t3_id_set_v1", "T3", "1 client (id < 128), 1 range, every clock/len byte, every prefix length",
    "IdSet::decode_v1 (BTreeMap insert of one key)", required=False, timeout=900, mem=8)

for n, b in [("gc", "GC"), ("skip", "Skip"), ("deleted", "Deleted, parent info"),
             ("deleted_o", "Deleted + origin"), ("deleted_r", "Deleted + right origin"),
             ("deleted_or", "Deleted + both origins"), ("deleted_sub", "Deleted + parent sub"),
             ("deleted_o_sub", "Deleted + origin + parent-sub flag"), ("binary", "Binary + origin"),
             ("unknown_11", "unknown ref 11"), ("unknown_15", "unknown ref 15")]:
    c10("t4_v1_" + n, "T4", "info byte concrete (%s), then every 4..7-byte string; in-bounds reader "
        "stubs (truncation is T1's claim)" % b, "Update::decode_block v1", timeout=900, mem=6)
for n in ["deleted", "binary", "string", "embed", "format", "unknown", "json_0", "json_1", "json_2",
          "type_array", "type_map", "type_text", "type_xml_element", "type_xml_fragment",
          "type_xml_hook", "type_xml_text", "type_subdoc", "type_undefined", "type_unknown",
          "any_hdr"]:
    c10("t4_content_" + n, "T4", "content kind concrete, every payload <= 2..6 bytes, every prefix length",
        "ItemContent::decode v1 (%s)" % n, mem=6)
c10("t4_content_type_weak", "T4", "weak-link type ref, every 6-byte payload, every prefix length",
    tier="thorough", required=False, timeout=2400, mem=10)
c10("t4_content_any_bool_int", "T4", "Any content [bool, int(2 bytes)]", tier="thorough",
    required=False, timeout=2400, mem=10)

for n in ["undefined", "null", "int", "f32", "f64", "bigint", "false", "true", "string", "buffer",
          "tag_0", "tag_115", "tag_128", "tag_255"]:
    c10("t5_any_" + n, "T5", "tag byte concrete, every payload <= 2..11 bytes, every prefix length",
        "Any::decode (%s)" % n)
c10("t5_any_array_hdr", "T5", "tag 117 + every 6-byte string; path cut at the fallible reservation",
    "Any::decode array: no infallible reservation from the count field")
c10("t5_any_map_hdr", "T5", "tag 118 + every 6-byte string; path cut at the fallible reservation",
    "Any::decode map: no infallible reservation from the count field")
c10("t5_any_array_bool_null", "T5", "array [bool, null]", "Any::decode array of payload-free scalars")
for n in ["f64_int", "bigint_string"]:
    c10("t5_any_array_" + n, "T5", "array of two payload-carrying scalars", tier="thorough",
        required=False, timeout=2400, mem=10)

for n in ["relative", "root", "nested", "bad_tag"]:
    c10("t6_sticky_" + n, "T6", "scope tag concrete, every payload <= 2..5 bytes, every prefix length",
        "StickyIndex::decode_v1 (%s)" % n, timeout=900)
for n in ["sync", "awareness", "auth", "query", "custom_4", "custom_200"]:
    c10("t6_msg_" + n, "T6", "message tag concrete, every payload <= 2..4 bytes, every prefix length",
        "sync::protocol::Message::decode_v1 (%s)" % n, timeout=900)
c10("t7_state_vector_v1", "T7", "every byte string <= 6; path cut at the first insert",
    "StateVector::decode_v1: reservation made from the count field")
c10("t7_awareness_update_v1", "T7", "every byte string <= 6; path cut at the first insert",
    "AwarenessUpdate::decode_v1: reservation made from the count field", timeout=900)

STUBS += [
    "C10 allocation-limit stubs: Vec::with_capacity, SmallVec::with_capacity, HashMap::with_capacity, "
    "HashMap::with_capacity_and_hasher assert requested <= input length (+1024 only for the constant of "
    "EncoderV1::new) and then build an empty container; HashMap::insert / first Vec::push (header "
    "harnesses) end the path (the map cannot be probed under Kani)",
    "Vec::try_reserve / VecDeque::try_reserve / HashMap::try_reserve -> Ok(()) without reserving "
    "(fallible reservation is the accepted pattern; its failure outcome is an early return)",
    "std::str::from_utf8 -> byte-wise validator of the same language (std's word-at-a-time validator "
    "does not get through CBMC)",
    "yrs::Any::from_json (serde_json, v1 Embed/Format) -> nondeterministic Ok(Null)/Err",
    "yrs::Doc::with_options -> assume(false) (sub-document content outside the bound)",
    "T4 block harnesses only: Cursor::read_u8 / read_exact -> same reads with the end-of-buffer error "
    "replaced by an assumption (the real end-of-buffer behaviour is decided in T1/T2)",
]
ASSUMPTIONS["C10"] = [
    "inputs longer than each instance's N are outside the claim",
    "where a tag / info / count byte is 'concrete per instance', the set of instances enumerates the "
    "listed values; other values of that byte are covered only by the 'unknown' instances",
    "a fallible reservation (try_reserve) from an untrusted count is accepted; only infallible "
    "capacity requests are bounded by the input length",
    "'a decoded value can be encoded again' is decided as encoder totality over the decoders' image in "
    "the T8 family, not by decode-then-encode in one harness (CBMC blow-up, DESIGN 2.4)",
    "recursion depth of Any::decode is proportional to input length (known finding F10-e), the harnesses "
    "bound nesting by the unwind value",
    "merge_updates / diff_updates / Update::decode past one block / StateVector and AwarenessUpdate past "
    "their reservation / IdMap::decode need a probed HashMap: outside the claim",
]


def instances():
    return list(_T)
