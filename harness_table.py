"""Table of harness instances: which #[kani::proof] functions of /verif/kani decide which property,
in which tier, with which bound. The driver (/verif/check) runs exactly what is listed here."""

STUBS = [
    "std::intrinsics::catch_unwind -> call try_fn, return false (Kani 0.68 ICE on the intrinsic; panic=abort)",
    "std::hash::RandomState::new -> fixed seeds (getrandom is a syscall); harnesses only construct empty maps",
    "alloc::fmt::format -> empty String (message text of Err values is in no property)",
]

ASSUMPTIONS = {
    "*": [
        "bounded model checking: the claim covers exactly the inputs inside each instance's stated bound; "
        "Kani's unwinding assertions are on, so a loop that could exceed the bound fails the run",
        "Kani models the dev profile (overflow checks and debug assertions on), no unwinding, "
        "a sequentially consistent single thread, and its own allocator",
        "trusted base: rustc MIR, Kani 0.68.0 codegen, CBMC 6.11.0, CaDiCaL",
    ],
}

_T = []
FS = ["--cbmc-args", "--max-field-sensitivity-array-size", "1024"]


def h(name, prop, family, bound, tier="quick", required=True, mem=12, timeout=None, desc="",
      unwind_is_violation=False, kani_args=None):
    _T.append(dict(name=name, prop=prop, family=family, bound=bound, tier=tier, required=required,
                   mem=mem, timeout=timeout, desc=desc, unwind_is_violation=unwind_is_violation,
                   kani_args=kani_args or []))


# ------------------------------------------------------------------------------------------- C10
def c10(name, family, bound, desc="", **kw):
    kw.setdefault("unwind_is_violation", True)
    h("c10::" + name, "C10", family, bound, desc=desc, **kw)


VAR_TYPES = ["u8", "u16", "u32", "u64", "usize", "u128", "i8", "i16", "i32", "i64", "isize"]
for t in VAR_TYPES:
    c10("t1_read_var_%s" % t, "T1", "every byte string of length <= 11; unwind 13",
        "Cursor::read_var::<%s>" % t)
for t in ["i64", "i32", "isize", "i16", "i8"]:
    c10("t1_read_signed_%s" % t, "T1", "every byte string of length <= 11; unwind 13",
        "Cursor::read_var_signed::<%s>, sign flag consistent with value" % t)
c10("t1_cursor_fixed", "T1", "every byte string <= 11, two consecutive reads of any fixed-width / "
    "read_exact(u32 len) / read_buf / read_string reader", "Cursor fixed-width readers")

c10("t2_v2_new", "T2", "every byte string <= 12", "DecoderV2::new (column framing)", timeout=1200,
    kani_args=["--solver", "minisat"])
for col in ["client", "left_clock", "right_clock", "info", "parent_info", "type_ref", "len", "string",
            "key_clock", "ds"]:
    c10("t2_col_%s_full" % col, "T2", "well-framed v2 buffer, column under test = every 6-byte string, "
        "2 reads", "DecoderV2 %s column reader" % col, timeout=900)
    c10("t2_col_%s_short" % col, "T2", "well-framed v2 buffer, column under test = every byte string "
        "of length 0..3, 2-3 reads", "DecoderV2 %s column reader (truncation)" % col,
        tier="thorough", required=False, timeout=1200)
c10("t2_col_client_full9", "T2", "client column = every 9-byte string, 1 read", "DecoderV2::read_client, values above 53 bits")
c10("t2_col_left_id_client9", "T2", "client column = every 9-byte string, left-clock column [2], 1 read",
    "DecoderV2::read_left_id, client values above 53 bits")
c10("t2_col_range_full", "T2", "rest buffer = every 10-byte string", "Range<u32>::decode over DecoderV2")
for n in ["client_k8", "left_clock_k8", "info_k8", "len_k8", "string_k8", "ds_k10"]:
    c10("t2_col_" + n, "T2", "column under test = every byte string of length 0..8 (10), 3-4 reads",
        tier="thorough", required=False, mem=24, timeout=1200)

c10("t3_range_v1", "T3", "every byte string <= 6", "Range<u32>::decode v1")
for c in (0, 1, 2):
    c10("t3_id_range_v1_c%d" % c, "T3", "count byte = %d, every payload, every prefix length" % c,
        "IdRange::decode v1, ranges materialised")
c10("t3_id_range_count_v1", "T3", "every byte string <= 6, path cut at the first pushed element",
    "IdRange::decode: reservation made from the count field")
c10("t3_id_set_v1", "T3", "1 client (id < 128), 1 range, every clock/len byte, every prefix length",
    "IdSet::decode_v1 (BTreeMap insert of one key)", tier="thorough", required=False, timeout=1200, mem=24)

for n, b in [("gc", "GC"), ("skip", "Skip"), ("deleted", "Deleted, parent info"),
             ("deleted_o", "Deleted + origin"), ("deleted_r", "Deleted + right origin"),
             ("deleted_or", "Deleted + both origins"), ("deleted_sub", "Deleted + parent sub"),
             ("deleted_o_sub", "Deleted + origin + parent-sub flag"), ("binary", "Binary + origin"),
             ("unknown_11", "unknown ref 11"), ("unknown_15", "unknown ref 15")]:
    c10("t4_v1_" + n, "T4", "info byte concrete (%s), then every 4..7-byte string; in-bounds reader "
        "stubs (truncation is T1's claim)" % b, "Update::decode_block v1", timeout=900)
for n in ["deleted", "binary", "string", "embed", "format", "unknown", "json_0", "json_1", "json_2",
          "type_array", "type_map", "type_text", "type_xml_element", "type_xml_fragment",
          "type_xml_hook", "type_xml_text", "type_subdoc", "type_undefined", "type_unknown",
          "any_hdr"]:
    c10("t4_content_" + n, "T4", "content kind concrete, every payload <= 2..6 bytes, every prefix length",
        "ItemContent::decode v1 (%s)" % n)
c10("t4_content_type_weak", "T4", "weak-link type ref, every 6-byte payload, every prefix length",
    tier="thorough", required=False, timeout=1200, mem=24)
c10("t4_content_any_bool_int", "T4", "Any content [bool, int(2 bytes)]", tier="thorough",
    required=False, timeout=1200, mem=24)

for n in ["undefined", "null", "int", "f32", "f64", "bigint", "false", "true", "string", "buffer",
          "tag_0", "tag_115", "tag_128", "tag_255"]:
    c10("t5_any_" + n, "T5", "tag byte concrete, every payload <= 2..11 bytes, every prefix length",
        "Any::decode (%s)" % n)
c10("t5_any_array_hdr", "T5", "tag 117 + every 6-byte string; path cut at the fallible reservation",
    "Any::decode array: no infallible reservation from the count field")
c10("t5_any_map_hdr", "T5", "tag 118 + every 6-byte string; path cut at the fallible reservation",
    "Any::decode map: no infallible reservation from the count field")
c10("t5_any_array_bool_null", "T5", "array [bool, null]", "Any::decode array of payload-free scalars")
for n in ["f64_int", "bigint_string"]:
    c10("t5_any_array_" + n, "T5", "array of two payload-carrying scalars", tier="thorough",
        required=False, timeout=1200, mem=24)

for n in ["relative", "root", "nested", "bad_tag"]:
    c10("t6_sticky_" + n, "T6", "scope tag concrete, every payload <= 2..5 bytes, every prefix length",
        "StickyIndex::decode_v1 (%s)" % n, timeout=900)
for n in ["relative_full", "nested_full"]:
    c10("t6_sticky_" + n, "T6", "scope tag concrete + every 10-byte string (full length only)",
        "StickyIndex::decode_v1 (%s): client ids up to 70 bits" % n, timeout=900)
for n in ["sync", "awareness", "auth", "query", "custom_4", "custom_200"]:
    c10("t6_msg_" + n, "T6", "message tag concrete, every payload <= 2..4 bytes, every prefix length",
        "sync::protocol::Message::decode_v1 (%s)" % n, timeout=900)
c10("t7_state_vector_v1", "T7", "every byte string <= 10; path cut at the first insert",
    "StateVector::decode_v1: reservation made from the count field")
c10("t7_awareness_update_v1", "T7", "every byte string <= 6; path cut at the first insert",
    "AwarenessUpdate::decode_v1: reservation made from the count field", timeout=900)

for n, b in [("id_range", "IdRange::decode (count 1, every payload, every prefix length)"),
             ("sticky_relative", "StickyIndex::decode_v1, relative scope, every 10-byte payload"),
             ("sticky_nested", "StickyIndex::decode_v1, nested scope, every 10-byte payload"),
             ("sticky_root", "StickyIndex::decode_v1, root scope, every 4-byte payload"),
             ("any_f32", "Any::decode f32"), ("any_f64", "Any::decode f64"), ("any_bigint", "Any::decode BigInt"),
             ("block_gc", "Update::decode_block GC, every 5-byte payload"),
             ("block_skip", "Update::decode_block Skip, every 5-byte payload")]:
    c10("t8_%s_reencode" % n, "T8", b + "; then the real Encode impl against the recording Encoder",
        "a successfully decoded value can be encoded again (no panic)")

for n, b in [("any_int2", "Any::decode integer (tag 125), every 2-byte payload"),
             ("any_int10", "Any::decode integer (tag 125), every 10-byte payload (all var-int widths of i64)"),
             ("any_buffer2", "Any::decode buffer (tag 116), length byte 2, every 2-byte payload")]:
    c10("t8_%s_reencode" % n, "T8", b + "; the decoded payload is asserted to be of the tag's kind, re-wrapped "
        "(concrete discriminant) and run through the real Any::encode against the recording Encoder",
        "a successfully decoded value can be encoded again (no panic)")

STUBS += [
    "C10 allocation-limit stubs: Vec::with_capacity, SmallVec::with_capacity, HashMap::with_capacity, "
    "HashMap::with_capacity_and_hasher assert requested <= input length (+1024 only for the constant of "
    "EncoderV1::new) and then build an empty container; HashMap::insert / first Vec::push (header "
    "harnesses) end the path (the map cannot be probed under Kani)",
    "Vec::try_reserve / VecDeque::try_reserve / HashMap::try_reserve -> Ok(()) without reserving "
    "(fallible reservation is the accepted pattern; its failure outcome is an early return)",
    "std::str::from_utf8 -> byte-wise validator of the same language (std's word-at-a-time validator "
    "does not get through CBMC)",
    "yrs::Any::from_json (serde_json, v1 Embed/Format) -> nondeterministic Ok(Null)/Err",
    "yrs::Doc::with_options -> assume(false) (sub-document content outside the bound)",
    "T4 block harnesses only: Cursor::read_u8 / read_exact -> same reads with the end-of-buffer error "
    "replaced by an assumption (the real end-of-buffer behaviour is decided in T1/T2)",
]
ASSUMPTIONS["C10"] = [
    "inputs longer than each instance's N are outside the claim",
    "where a tag / info / count byte is 'concrete per instance', the set of instances enumerates the "
    "listed values; other values of that byte are covered only by the 'unknown' instances",
    "a fallible reservation (try_reserve) from an untrusted count is accepted; only infallible "
    "capacity requests are bounded by the input length",
    "'a decoded value can be encoded again' is decided by decode-then-encode against a recording Encoder (T8) "
    "for delete-set ranges, sticky indexes, Any f32/f64/BigInt/integer (all var-int widths) / 2-byte buffer "
    "and GC/Skip blocks only; item blocks, Any string and messages did not finish and rest on the image "
    "constraints the decoders' harnesses assert (ranges ordered, sign flags consistent, client ids < 2^53). "
    "The integer and buffer instances re-wrap the decoded payload in a fresh Any of the asserted kind "
    "before encoding (keeps the enum discriminant concrete for the solver; the payload is the decoder's)",
    "recursion depth of Any::decode is proportional to input length (known finding F10-e), the harnesses "
    "bound nesting by the unwind value",
    "merge_updates / diff_updates / Update::decode past one block / StateVector and AwarenessUpdate past "
    "their reservation / IdMap::decode need a probed HashMap: outside the claim",
]


# ------------------------------------------------------------------------------------------- C16
def c16(name, family, bound, desc="", **kw):
    # CBMC's CaDiCaL interface needs > 60 GB while generating the clauses of these instances;
    # MiniSat decides the same formula in 10-15 GB (measured), so C16 pins the solver.
    kw.setdefault("kani_args", ["--solver", "minisat"])
    kw.setdefault("mem", 24)
    h("c16::" + name, "C16", family, bound, desc=desc, **kw)


U = "all u32 bounds symbolic, symbolic argument range(s), symbolic witness clock"
Q, TH = "quick", "thorough"


def a1(name, bound, desc, tier, required, timeout=900):
    c16(name, "A1", bound, desc, tier=tier, required=required, timeout=timeout)


def a2(name, bound, desc, tier, required, timeout=900):
    c16(name, "A2", bound, desc, tier=tier, required=required, timeout=timeout)


# measured (wall / peak RSS) on this sandbox; quick = required set
a1("a1_insert_p0", "empty pre-state; " + U, "IdRanges<()>::insert", Q, True)                 # 8 s
a1("a1_insert_p1", "any canonical 1-entry list; " + U, "IdRanges<()>::insert", TH, True, 2400)  # 490 s, 12 GB
a1("a1_insert_p2", "any canonical 2-entry list; " + U, "IdRanges<()>::insert", TH, False, 1200)  # 516 s, 21 GB
a1("a1_remove_p1", "any canonical 1-entry list; " + U, "IdRanges<()>::remove", Q, True)       # 9 s
a1("a1_remove_p2", "any canonical 2-entry list; " + U, "IdRanges<()>::remove", Q, True)       # 115 s
a1("a1_remove_p3", "any canonical 3-entry list; " + U, "IdRanges<()>::remove", TH, True, 2400)  # 560 s
a1("a1_exclude_p1_q1", "canonical lists 1 x 1; " + U, "IdRanges<()>::exclude", Q, True)       # 70 s, 3.7 GB
a1("a1_exclude_p1_q2", "canonical lists 1 x 2; " + U, "IdRanges<()>::exclude", TH, True, 2400)  # 157 s, 6 GB
a1("a1_exclude_p2_q1", "canonical lists 2 x 1; " + U, "IdRanges<()>::exclude", TH, False, 900)  # > 24 GB when measured
a1("a1_intersect_p1_q1", "canonical lists 1 x 1; " + U, "IdRanges<()>::intersect", Q, True)   # 153 s, 9.5 GB
a1("a1_intersect_p1_q2", "canonical lists 1 x 2; " + U, "IdRanges<()>::intersect", TH, True, 2400)  # 282 s, 16 GB
a1("a1_intersect_p2_q1", "canonical lists 2 x 1; " + U, "IdRanges<()>::intersect", TH, False, 900)  # > 24 GB when measured
for (p_, q_) in ((1, 1),):
    # T = (): > 24 GB in every shape measured (1x1, 2x1, 1x2, 2x2); the same generic function is decided with
    # T = Mask (A2); one instance is kept as best effort
    a1("a1_merge_p%d_q%d" % (p_, q_), "canonical lists %d x %d; %s" % (p_, q_, U), "IdRanges<()>::merge",
       TH, False, 900)
for (p_, q_) in ((1, 1), (2, 2), (3, 2)):
    a1("a1_queries_p%d_q%d" % (p_, q_), "canonical lists %d x %d; %s" % (p_, q_, U),
       "subset_of, contains_clock, find_start, clock_start/end, len, is_empty", Q, True)      # 7-13 s

V = "valued lists (3-bit mask values, Merge = bit-or, symbolic values); "
a2("a2_insert_with_p0", V + "empty pre-state; " + U, "IdRanges<M>::insert_with", Q, True)      # 32 s
a2("a2_insert_with_p1", V + "1 entry; " + U, "IdRanges<M>::insert_with", Q, True)              # 116 s
a2("a2_insert_with_p2", V + "2 entries; " + U, "IdRanges<M>::insert_with", TH, True, 2400)     # 830 s
a2("a2_remove_p1", V + "1 entry; " + U, "IdRanges<M>::remove", Q, True)                        # 10 s
a2("a2_remove_p2", V + "2 entries; " + U, "IdRanges<M>::remove", Q, True)                      # 23 s
a2("a2_merge_p1_q1", V + "1 x 1; " + U, "IdRanges<M>::merge", Q, True)                         # 49 s
a2("a2_merge_p2_q1", V + "2 x 1; " + U, "IdRanges<M>::merge", Q, True, 1200)                   # 184-260 s
a2("a2_exclude_p1_q1", V + "1 x 1; " + U, "IdRanges<M>::exclude", Q, True)                     # 31 s
a2("a2_exclude_p2_q1", V + "2 x 1; " + U, "IdRanges<M>::exclude", Q, True)                     # 36 s
a2("a2_intersect_p1_q1", V + "1 x 1; " + U, "IdRanges<M>::intersect", Q, True)                 # 41 s
a2("a2_intersect_p2_q1", V + "2 x 1; " + U, "IdRanges<M>::intersect", Q, True)                 # 87 s
a2("a2_intersect_p1_q2", V + "1 x 2; " + U, "IdRanges<M>::intersect", Q, True)                 # 84 s
for n in ("insert_remove",):
    # BTreeMap lifting: none of the five harnesses finished within 40 minutes (DESIGN 2.4); one kept as best effort
    c16("a3_idset_" + n, "A3", "IdSet over concrete client ids {1,2,3}, one symbolic range per client",
        "IdSet lifting (BTreeMap): " + n, tier="thorough", required=False, timeout=900)

STUBS += [
    "C16: SmallVec::new / with_capacity -> the same empty vector, heap-backed with spare capacity 4; "
    "SmallVec::push / insert / remove / reserve -> capacity-asserting, element-wise models without a "
    "re-allocation path (smallvec's try_grow and memmove with a symbolic byte count make CBMC's array "
    "theory run out of memory); SmallVec::drain is the real one",
]
ASSUMPTIONS["C16"] = [
    "pre-states with more entries than the instance's p / q are outside the claim; the step is inductive: "
    "any canonical pre-state, not a construction history",
    "canonical pre-state = sorted, non-empty entries, neighbours neither overlapping nor touching "
    "(valued lists: touching neighbours carry different values)",
    "IdSet::insert(id, len) is called with clock + len <= u32::MAX (ranges are positions of existing content)",
    "IdMap's public wrapper (HashSet of attributes), its codec, DeleteSet::from_store, try_squash_with and the "
    "block iterators need a HashMap / BlockStore: outside the claim",
    "CBMC solver for this property: MiniSat (CaDiCaL's clause interface exceeds memory)",
]


# ------------------------------------------------------------------------------------------- C13
C13_BOUND = ("shape %s concrete; ids, clocks (full width), scalar payloads and both cut positions "
             "symbolic; content %s")


def c13(name, family, bound, desc="", **kw):
    kw.setdefault("kani_args", FS)
    h("c13::" + name, "C13", family, bound, desc=desc, **kw)


for i in range(8):
    c13("s1_deleted_sh%d" % i, "S1", C13_BOUND % (i, "Deleted(5)"),
        "ItemSlice::encode vs reference model of splice + Item::encode")
for n, c in [("abc_sh4", "'abc'"), ("abc_sh0", "'abc'"), ("abc_sh5", "'abc'"),
             ("wide_sh4", "'a\u00e9\u20ac'"), ("wide_sh3", "'a\u00e9\u20ac'"),
             ("astral_sh4", "'a\U0001d11eb' (cuts on character boundaries)"),
             ("astral_sh0", "'a\U0001d11eb' (cuts on character boundaries)"),
             ("astral2_sh5", "'\U0001d11ea' (cuts on character boundaries)"), ("one_sh4", "'x'")]:
    c13("s1_string_" + n, "S1", C13_BOUND % (n.split("sh")[1], "String " + c),
        "ItemSlice::encode / encode_slice / split_str vs reference model", timeout=900)
for n in ("sh4", "sh0", "sh6"):
    c13("s1_any_" + n, "S1", C13_BOUND % (n[2:], "Any [BigInt, Bool, BigInt] (symbolic payloads)"),
        "ItemSlice::encode / encode_slice vs reference model")
for n in ("sh4", "sh1"):
    c13("s1_json_" + n, "S1", C13_BOUND % (n[2:], "JSON ['1', '[2]', 'null']"),
        "ItemSlice::encode / encode_slice vs reference model")
c13("s2_gc_refusal", "S2", "empty store, skip_gc symbolic, empty snapshot",
    "Store::encode_state_from_snapshot refuses with Error::Gc and writes nothing", kani_args=[])

STUBS += [
    "C13/S1: <str::Chars as Iterator>::count -> byte-wise count of non-continuation bytes (std counts "
    "word-at-a-time behind alignment arithmetic; not used by the code as it stands, kept so that a change "
    "introducing chars().count() stays decidable)",
    "C13/S1: the Encoder is a recording implementation of the public Encoder trait (call kind + arguments); "
    "ItemSlice::encode / ItemContent::encode_slice run unmodified against it",
]
ASSUMPTIONS["C13"] = [
    "mechanism level: what is decided is that the cut block written by encode_state_from_snapshot "
    "(ItemSlice::encode) makes exactly the encoder calls of Item::encode on the middle piece of the real "
    "splice - for every id, clock and cut inside the instance; which blocks are selected "
    "(write_blocks_to, BlockStore, StateVector: HashMap) is outside the claim",
    "the reference model of 'splice + Item::encode' is validated against the real ItemPtr::splice and "
    "Item::encode by the native test c13_model::tests::model_matches_real_splice, run by this check",
    "equal encoder calls imply equal bytes in v1 and v2 (both encoders are deterministic in the call "
    "sequence); their call -> bytes mapping is C09's claim",
    "cuts inside a surrogate pair are excluded (a snapshot / state-vector clock is the end of an insert)",
    "content kinds Binary / Embed / Format / Type / Doc have length 1 and are never cut",
]

# ------------------------------------------------------------------------------------------- C09
def c09(name, family, bound, desc="", **kw):
    h("c09::" + name, "C09", family, bound, desc=desc, **kw)


for t in VAR_TYPES:
    c09("r1_var_%s" % t, "R1", "every %s value%s" % (t, " except MIN" if t in ("i64", "isize") else ""),
        "write_var -> read_var round-trip, decoder consumes exactly the output")
c09("r1_signed_i64", "R1", "every Signed<i64> whose flag agrees with the value's sign (incl. -0), value != MIN",
    "write_var_signed -> read_var_signed")
c09("r2_fixed_width", "R2", "every u16/u32/u32_be/u64/i64/f32 bits/f64 bits/u8", "fixed-width writers/readers")
for n in (0, 1, 3):
    c09("r2_buf_%d" % n, "R2", "every %d-byte buffer + trailer byte" % n, "write_buf -> read_buf")
for n in ("empty", "1", "2", "3", "4", "1_4", "3_2"):
    c09("r2_string_" + n, "R2", "characters of the given UTF-8 widths, symbolic code points",
        "write_string -> read_string")

c09("r9_any_bigint", "R9", "every i64", "Any::BigInt encode -> decode")
c09("r9_any_buffer", "R9", "every 3-byte buffer", "Any::Buffer encode -> decode")
R3B = ("well-framed v2 buffer whose %s column is every 5-byte string; 3 reads compared with a reference "
       "model of the lib0 v2 column format")
c09("r3_col_client", "R3", R3B % "client", "DecoderV2::read_client (UintOptRle + 53-bit check) vs model", timeout=900)
c09("r3_col_len_u32", "R3", R3B % "len", "DecoderV2::read_len (UintOptRle) vs model", timeout=900)
c09("r3_col_type_ref_u8", "R3", R3B % "type-ref", "DecoderV2::read_type_ref (UintOptRle) vs model", timeout=900)
c09("r3_col_left_clock", "R3", R3B % "left-clock", "DecoderV2::read_left_id (IntDiffOptRle) vs model", timeout=900)
c09("r3_col_right_clock", "R3", R3B % "right-clock", "DecoderV2::read_right_id (IntDiffOptRle) vs model", timeout=900)
c09("r3_col_info", "R3", "info column = every byte string of length 0..5; 3 reads vs model",
    "DecoderV2::read_info (Rle) vs model", timeout=1200, kani_args=["--solver", "minisat"])

R5B = ("shape %d concrete; ids, clocks (full width) and scalar payloads symbolic; content %s; recording "
       "Encoder")
for i in range(8):
    c09("r5_encode_deleted_sh%d" % i, "R5", R5B % (i, "Deleted(5)"), "Item::encode vs block-format model",
        kani_args=FS)
for n, sh, c in [("string_sh5", 5, "String"), ("any_sh2", 2, "Any [BigInt, Bool]"), ("json_sh3", 3, "JSON"),
                 ("binary_sh4", 4, "Binary"), ("embed_sh6", 6, "Embed"), ("format_sh1", 1, "Format"),
                 ("type_array_sh0", 0, "Type(Array)"), ("type_xml_sh7", 7, "Type(XmlElement)")]:
    c09("r5_encode_" + n, "R5", R5B % (sh, c), "Item::encode vs block-format model", kani_args=FS)
for n, sh, c in [("deleted_sh3", 3, "Deleted(5)"), ("string_sh0", 0, "String with an astral character"),
                 ("any_sh5", 5, "Any [BigInt, Bool, Null]"), ("json_sh2", 2, "JSON of three strings"),
                 ("binary_sh4", 4, "Binary")]:
    c09("r5_slice_" + n, "R5", R5B % (sh, c), "Block::as_slice + BlockSlice::encode (the path of "
        "encode_state_as_update / encode_diff for every block) vs block-format model", kani_args=FS)

c09("r3_ds_stream", "R3", "rest buffer = every 6-byte string; two (clock, len) pairs vs the delete-set stream format",
    "DecoderV2::read_ds_clock / read_ds_len vs model", timeout=900)
c09("r6_id_range_encode", "R6", "two disjoint symbolic ranges; recording Encoder", "IdRange / Range<u32> encode vs format")
for n in ("relative", "nested", "root"):
    c09("r7_sticky_encode_" + n, "R7", "scope kind concrete, id and assoc symbolic; recording Encoder",
        "StickyIndex / IndexScope / Assoc encode vs format")
for n in ("auth_granted", "auth_denied", "query", "custom", "sync_step2", "sync_update"):
    c09("r8_msg_" + n, "R8", "message variant concrete, tag (4..255) and payload bytes symbolic; recording Encoder",
        "sync::protocol::Message / SyncMessage encode vs format")
c09("r9_any_number_encode", "R9", "every f64 bit pattern; recording Encoder",
    "Any::Number encoding selection (var-int / f32 / f64) vs the lib0 rule")
c09("r9_any_f32_decode", "R9", "tag 124 + every 4-byte payload", "Any::decode f32 vs primitive reader")
c09("r9_any_f64_decode", "R9", "tag 123 + every 8-byte payload", "Any::decode f64 vs primitive reader")

for n in ("map", "text", "xml_fragment", "xml_hook", "xml_text", "subdoc", "undefined"):
    c09("r5_type_" + n, "R5", "Type content with TypeRef::%s, shape 3, ids symbolic; recording Encoder" % n,
        "TypeRef::encode through Item::encode vs format", kani_args=FS)
for n in ("single", "rel_rel", "nested_rel", "rel_nested", "root_root", "nested_nested"):
    c09("r5_weak_" + n, "R5", "weak-link type ref, scope kinds concrete (%s), ids and associations symbolic; "
        "recording Encoder" % n, "TypeRef::WeakLink encode (flags byte + scopes) vs format", kani_args=FS)

c09("r5_gc_skip_encode", "R5", "GC or Skip block, id, len, start offset and end trim symbolic; recording Encoder",
    "Block::encode / encode_with_offset / BlockSlice::encode for GC and Skip vs what decode_block reads", kani_args=FS)

ASSUMPTIONS["C09"] = [
    "R6/R7/R8 decide the *encoder* halves of delete-set ranges, sticky indexes and sync messages against their "
    "formats (encoder calls through a recording Encoder); their decoder halves are covered for totality only (C10)",
    "R5 decides the *encoder* half of the block format: Item::encode and the untrimmed BlockSlice::encode make "
    "exactly the encoder calls of the reference model (v1 and v2 at once, through a recording Encoder). That "
    "these calls are read back as the same item by Update::decode_block is validated natively on 128 concrete "
    "items per run (c13_model::tests::item_encode_decodes_back_v1_v2), not decided by the solver",
    "R3 decides the *decoder* half of the v2 run-length columns against a reference model of the format "
    "(UintOptRle, IntDiffOptRle, Rle); the encoder half (EncoderV2's private column encoders, reachable "
    "through a hook) followed by a decoder needs 30-60 GB with either solver and is not decided",
    "wire types backed by a std HashMap beyond their empty value (StateVector, Snapshot.state_map, "
    "AwarenessUpdate, Any::Map, Update's client table, IdMap attributes), multi-block Updates, serde/JSON "
    "forms and the Yjs-generated payloads in assets/ are outside the claim",
    "i64::MIN / isize::MIN are not representable in the lib0 signed var-int format and are never written "
    "by the library",
]


def instances():
    return list(_T)
