// property=C10 harness=c10::t1_read_var_i64
// check: attempt to negate with overflow
// where: ../../repo/yrs/src/encoding/varint.rs:275:40 in yrs::encoding::varint::read_var_i64::<yrs::encoding::read::Cursor<'_>>
// native replay: panicked at /repo/yrs/src/encoding/varint.rs:275:40: attempt to negate with overflow
// re-run: /verif/check C10 --replay /verif/replays/C10/c10__t1_read_var_i64__56335c3b36.rs
//@harness c10::t1_read_var_i64
/// Test generated for harness `c10::t1_read_var_i64` 
///
/// Check for `assertion`: "attempt to negate with overflow"

#[test]
fn kani_concrete_playback_t1_read_var_i64_6679797321410007709() {
    let concrete_vals: Vec<Vec<u8>> = vec![
        // 192
        vec![192],
        // 128
        vec![128],
        // 128
        vec![128],
        // 128
        vec![128],
        // 128
        vec![128],
        // 128
        vec![128],
        // 128
        vec![128],
        // 128
        vec![128],
        // 128
        vec![128],
        // 126
        vec![126],
        // 1
        vec![1],
        // 11ul
        vec![11, 0, 0, 0, 0, 0, 0, 0],
    ];
    kani::concrete_playback_run(concrete_vals, t1_read_var_i64);
}
