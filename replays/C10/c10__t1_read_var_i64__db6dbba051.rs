// property=C10 harness=c10::t1_read_var_i64
// check: attempt to shift left with overflow
// where: ../../repo/yrs/src/encoding/varint.rs:272:16 in yrs::encoding::varint::read_var_i64::<yrs::encoding::read::Cursor<'_>>
// native replay: panicked at /repo/yrs/src/encoding/varint.rs:272:16: attempt to shift left with overflow
// re-run: /verif/check C10 --replay /verif/replays/C10/c10__t1_read_var_i64__db6dbba051.rs
//@harness c10::t1_read_var_i64
/// Test generated for harness `c10::t1_read_var_i64` 
///
/// Check for `assertion`: "attempt to shift left with overflow"

#[test]
fn kani_concrete_playback_t1_read_var_i64_6241672207533686242() {
    let concrete_vals: Vec<Vec<u8>> = vec![
        // 192
        vec![192],
        // 251
        vec![251],
        // 251
        vec![251],
        // 251
        vec![251],
        // 251
        vec![251],
        // 251
        vec![251],
        // 251
        vec![251],
        // 251
        vec![251],
        // 251
        vec![251],
        // 251
        vec![251],
        // 4
        vec![4],
        // 11ul
        vec![11, 0, 0, 0, 0, 0, 0, 0],
    ];
    kani::concrete_playback_run(concrete_vals, t1_read_var_i64);
}
