#!/bin/bash
# like run1.sh but with extra cbmc args: run1a.sh <harness> <timeout> <dirsuffix> <cbmc args...>
H="$1"; T="$2"; S="$3"; shift 3
L=/verif/.work/run1_$(echo "$H" | tr ':' '_').log
cd /verif/kani
START=$(date +%s)
CARGO_NET_OFFLINE=true RUSTFLAGS="--cfg y_crdt_y_crdt_verif" timeout "$T" cargo kani --target-dir /verif/.work/$S -Z stubbing -Z unstable-options --harness "$H" --exact --cbmc-args "$@" > "$L" 2>&1
RC=$?
END=$(date +%s)
echo "== $H rc=$RC wall=$((END-START))s"
grep "Runtime Symex\|Verification Time\|VERIFICATION" "$L" | tr '\n' ' '; echo
grep "^ \*\* " "$L"
grep "Status: FAILURE" -B1 -A2 "$L" | grep -v "^--" | cut -c1-260 | head -12
grep "\.cover\." -A2 "$L" | grep "Status\|Description" | paste - - | cut -c1-120 | head -8
