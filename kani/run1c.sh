#!/bin/bash
# run1c.sh <harness> <timeout> <dirsuffix> <kani args...>   (dev copy of the crate)
H="$1"; T="$2"; S="$3"; shift 3
L=/verif/.work/run1_$(echo "$H" | tr ':' '_')_$S.log
cd /verif/kani
START=$(date +%s)
CARGO_NET_OFFLINE=true RUSTFLAGS="--cfg y_crdt_y_crdt_verif" /usr/bin/time -v timeout "$T" cargo kani --target-dir /verif/.work/$S -Z stubbing -Z unstable-options --harness "$H" --exact "$@" > "$L" 2>&1
RC=$?
END=$(date +%s)
echo "== $H [$*] rc=$RC wall=$((END-START))s rss=$(grep 'Maximum resident' $L | awk '{print int($6/1024)}')MB"
grep -n "^error" -A4 "$L" | cut -c1-160 | head -6
grep "Runtime Symex\|Verification Time\|VERIFICATION" "$L" | tr '\n' ' '; echo
grep "^ \*\* " "$L"
grep "Status: FAILURE" -B1 -A2 "$L" | grep -v "^--" | cut -c1-260 | head -12
