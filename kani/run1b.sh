#!/bin/bash
# run1b.sh <harness> <timeout> <dirsuffix> : no memory-safety checks, no reach checks, no array field sensitivity
H="$1"; T="$2"; S="$3"; shift 3
L=/verif/.work/run1_$(echo "$H" | tr ':' '_').log
cd /verif/kani
START=$(date +%s)
CARGO_NET_OFFLINE=true RUSTFLAGS="--cfg y_crdt_y_crdt_verif" timeout "$T" cargo kani --target-dir /verif/.work/$S -Z stubbing -Z unstable-options --no-memory-safety-checks --no-assertion-reach-checks --harness "$H" --exact --cbmc-args --no-array-field-sensitivity "$@" > "$L" 2>&1
RC=$?
END=$(date +%s)
echo "== $H rc=$RC wall=$((END-START))s"
grep "Runtime Symex\|Verification Time\|VERIFICATION" "$L" | tr '\n' ' '; echo
grep "^ \*\* " "$L"
grep "Status: FAILURE" -B1 -A2 "$L" | grep -v "^--" | cut -c1-260 | head -12
grep "\.cover\." -A2 "$L" | grep "Status\|Description" | paste - - | cut -c1-120 | head -8
