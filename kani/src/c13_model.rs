//! C13/S1: recording encoder and reference model of a slice encoding. Compiled with and without
//! Kani: the Kani harnesses (c13.rs) compare the real `ItemSlice::encode` against the model, the
//! ordinary #[test] below validates the model against the real `ItemPtr::splice` + `Item::encode`.
use std::sync::Arc;
use yrs::block::{ClientID, ItemContent};
use yrs::encoding::write::Write;
use yrs::updates::encoder::Encoder;
use yrs::verif as hook;
use yrs::verif::{ItemBox, Parent};
use yrs::{Any, ID};

/// Concrete description of the shape of an item (what must stay constant for symbolic
/// execution, DESIGN 2.4); ids and clocks are symbolic.
#[derive(Clone, Copy)]
pub struct Shape {
    pub origin: bool,
    pub right_origin: bool,
    pub parent_named: bool,
    pub parent_sub: bool,
}

pub struct Ids {
    pub id: ID,
    pub origin: ID,
    pub right_origin: ID,
    pub parent: ID,
}

pub fn build_item(shape: Shape, ids: &Ids, content: ItemContent) -> ItemBox {
    let parent = if shape.parent_named {
        Parent::Named(Arc::from("r"))
    } else {
        Parent::ID(ids.parent)
    };
    let parent_sub: Option<Arc<str>> = if shape.parent_sub {
        Some(Arc::from("k"))
    } else {
        None
    };
    let it = ItemBox::new(
        ids.id,
        if shape.origin { Some(ids.origin) } else { None },
        if shape.right_origin {
            Some(ids.right_origin)
        } else {
            None
        },
        parent,
        parent_sub,
        content,
    );
    match it {
        Some(it) => it,
        None => panic!("empty content"),
    }
}

// ---------------------------------------------------------------------------------------------
// A recording `Encoder`: the real encoders turn every call into var-ints written at symbolic
// offsets of a heap buffer, which symbolic execution does not get through for two encodings
// of an item with five symbolic ids (10 minutes, unfinished). `ItemSlice::encode` and
// `Item::encode` are generic over `Encoder`, so they run unmodified against this recorder; two
// encodings are equal in v1 *and* v2 if they make the same calls with the same arguments, because
// both real encoders are deterministic functions of the call sequence (their call -> bytes
// mapping is C09's business).
// ---------------------------------------------------------------------------------------------
#[derive(Clone, Copy, PartialEq, Eq)]
pub struct Ev {
    pub kind: u8,
    pub a: u64,
    pub b: u64,
}
pub const MAX_EV: usize = 12;
pub type Recorder = RecorderN<MAX_EV>;
pub struct RecorderN<const M: usize> {
    pub ev: [Ev; M],
    pub n: usize,
}
impl<const M: usize> RecorderN<M> {
    pub fn new() -> Self {
        RecorderN { ev: [Ev { kind: 0, a: 0, b: 0 }; M], n: 0 }
    }
    fn rec(&mut self, kind: u8, a: u64, b: u64) {
        assert!(self.n < M, "recorder capacity");
        self.ev[self.n] = Ev { kind, a, b };
        self.n += 1;
    }
    fn pack(bytes: &[u8]) -> u64 {
        // strings / buffers in these harnesses are at most 8 bytes: exact packing
        assert!(bytes.len() <= 8, "recorder: payload longer than 8 bytes");
        let mut v = 0u64;
        let mut i = 0;
        while i < 8 {
            if i < bytes.len() {
                v |= (bytes[i] as u64) << (8 * i);
            }
            i += 1;
        }
        v
    }
    fn rec_any(&mut self, kind: u8, any: &Any) {
        match any {
            Any::BigInt(v) => self.rec(kind, 1, *v as u64),
            Any::Bool(v) => self.rec(kind, 2, *v as u64),
            Any::Null => self.rec(kind, 3, 0),
            Any::Undefined => self.rec(kind, 4, 0),
            Any::Number(v) => self.rec(kind, 5, v.to_bits()),
            _ => panic!("recorder: only scalar Any values are used in these harnesses"),
        }
    }
}
impl<const M: usize> Write for RecorderN<M> {
    fn write_all(&mut self, buf: &[u8]) {
        self.rec(1, buf.len() as u64, Self::pack(buf));
    }
    fn write_u8(&mut self, value: u8) {
        self.rec(2, value as u64, 0);
    }
    fn write_string(&mut self, s: &str) {
        self.rec(3, s.len() as u64, Self::pack(s.as_bytes()));
    }
}
impl<const M: usize> Encoder for RecorderN<M> {
    fn to_vec(self) -> Vec<u8> {
        Vec::new()
    }
    fn reset_ds_cur_val(&mut self) {
        self.rec(10, 0, 0)
    }
    fn write_ds_clock(&mut self, clock: u32) {
        self.rec(11, clock as u64, 0)
    }
    fn write_ds_len(&mut self, len: u32) {
        self.rec(12, len as u64, 0)
    }
    fn write_left_id(&mut self, id: &ID) {
        self.rec(13, id.client.get(), id.clock as u64)
    }
    fn write_right_id(&mut self, id: &ID) {
        self.rec(14, id.client.get(), id.clock as u64)
    }
    fn write_client(&mut self, client: ClientID) {
        self.rec(15, client.get(), 0)
    }
    fn write_info(&mut self, info: u8) {
        self.rec(16, info as u64, 0)
    }
    fn write_parent_info(&mut self, is_y_key: bool) {
        self.rec(17, is_y_key as u64, 0)
    }
    fn write_type_ref(&mut self, info: u8) {
        self.rec(18, info as u64, 0)
    }
    fn write_len(&mut self, len: u32) {
        self.rec(19, len as u64, 0)
    }
    fn write_any(&mut self, any: &Any) {
        self.rec_any(20, any)
    }
    fn write_json(&mut self, any: &Any) {
        self.rec_any(21, any)
    }
    fn write_key(&mut self, string: &str) {
        self.rec(22, string.len() as u64, Self::pack(string.as_bytes()));
    }
}

pub fn assert_same_events<const M: usize>(a: &RecorderN<M>, b: &RecorderN<M>) {
    assert!(a.n == b.n, "slice and splice encodings make a different number of encoder calls");
    let mut i = 0;
    while i < M {
        if i < a.n {
            assert!(a.ev[i].kind == b.ev[i].kind, "slice and splice encodings make different encoder calls");
            assert!(a.ev[i].a == b.ev[i].a && a.ev[i].b == b.ev[i].b,
                "slice and splice encodings pass different arguments to the encoder");
        }
        i += 1;
    }
}

// ---------------------------------------------------------------------------------------------
// Reference model of the encoding of the slice `start..=end` of an item: the `Item::encode` of
// the middle piece that `ItemPtr::splice(end + 1)` + `splice(start)` produce. (Spelled out here
// because running the real splice symbolically does not finish; `model_matches_real_splice` below
// is an ordinary #[test] that pushes concrete items through the real splice + `Item::encode` and
// through this model, so the model itself is validated against the implementation.)
// ---------------------------------------------------------------------------------------------
pub const HAS_ORIGIN: u8 = 0b1000_0000;
pub const HAS_RIGHT_ORIGIN: u8 = 0b0100_0000;
pub const HAS_PARENT_SUB: u8 = 0b0010_0000;

pub enum ContentModel<'a> {
    Deleted(u32),
    Str(&'a str),
    AnyScalars(&'a [Any]),
    Json(&'a [&'a str]),
    // length-1 kinds (never cut; used by the whole-item encoding harnesses, C09/R5)
    Binary(&'a [u8]),
    Embed(&'a Any),
    Format(&'a str, &'a Any),
    Type(u8, Option<&'a str>),
}

/// UTF-16 slice `start..=end` (in code units) of `s`; a cut inside a surrogate pair keeps the
/// whole character on the left side (what `split_str` does).
pub fn utf16_slice(s: &str, start: u32, end: u32) -> &str {
    let mut unit = 0u32;
    let mut from = s.len();
    let mut to = s.len();
    let mut from_set = false;
    let mut to_set = false;
    for (i, ch) in s.char_indices() {
        if !from_set && unit >= start {
            from = i;
            from_set = true;
        }
        if from_set && !to_set && unit >= end + 1 {
            to = i;
            to_set = true;
        }
        unit += ch.len_utf16() as u32;
    }
    if !from_set {
        from = s.len();
    }
    // the end cut is taken relative to the start cut, like the implementation does
    if from_set && !to_set {
        to = s.len();
    }
    &s[from..to.max(from)]
}

pub fn model_encode_slice(
    rec: &mut Recorder,
    shape: Shape,
    ids: &Ids,
    ref_num: u8,
    content: &ContentModel,
    start: u32,
    end: u32,
) {
    let has_origin = shape.origin || start > 0;
    let info = (if has_origin { HAS_ORIGIN } else { 0 })
        | (if shape.right_origin { HAS_RIGHT_ORIGIN } else { 0 })
        | (if shape.parent_sub { HAS_PARENT_SUB } else { 0 })
        | ref_num;
    rec.write_info(info);
    if start > 0 {
        rec.write_left_id(&ID::new(ids.id.client, ids.id.clock + start - 1));
    } else if shape.origin {
        rec.write_left_id(&ids.origin);
    }
    if shape.right_origin {
        rec.write_right_id(&ids.right_origin);
    }
    if !has_origin && !shape.right_origin {
        if shape.parent_named {
            rec.write_parent_info(true);
            rec.write_string("r");
        } else {
            rec.write_parent_info(false);
            rec.write_left_id(&ids.parent);
        }
        if shape.parent_sub {
            rec.write_string("k");
        }
    }
    match content {
        ContentModel::Deleted(_) => rec.write_len(end - start + 1),
        ContentModel::Str(s) => rec.write_string(utf16_slice(s, start, end)),
        ContentModel::AnyScalars(v) => {
            rec.write_len(end - start + 1);
            let mut i = 0;
            while i < v.len() {
                if i as u32 >= start && i as u32 <= end {
                    rec.write_any(&v[i]);
                }
                i += 1;
            }
        }
        ContentModel::Json(v) => {
            rec.write_len(end - start + 1);
            let mut i = 0;
            while i < v.len() {
                if i as u32 >= start && i as u32 <= end {
                    rec.write_string(v[i]);
                }
                i += 1;
            }
        }
        ContentModel::Binary(b) => rec.write_buf(b),
        ContentModel::Embed(a) => rec.write_json(a),
        ContentModel::Format(k, v) => {
            rec.write_key(k);
            rec.write_json(v);
        }
        ContentModel::Type(kind, name) => {
            rec.write_type_ref(*kind);
            if let Some(name) = name {
                rec.write_key(name);
            }
        }
    }
}

pub const SHAPES: [Shape; 8] = [
    Shape { origin: false, right_origin: false, parent_named: true, parent_sub: false },
    Shape { origin: false, right_origin: false, parent_named: false, parent_sub: false },
    Shape { origin: false, right_origin: false, parent_named: true, parent_sub: true },
    Shape { origin: true, right_origin: false, parent_named: true, parent_sub: false },
    Shape { origin: false, right_origin: true, parent_named: true, parent_sub: false },
    Shape { origin: true, right_origin: true, parent_named: false, parent_sub: false },
    Shape { origin: true, right_origin: true, parent_named: true, parent_sub: true },
    Shape { origin: false, right_origin: true, parent_named: false, parent_sub: true },
];


#[cfg(test)]
mod tests {
    use super::*;
    use yrs::OffsetKind;

    fn ids(clock: u32) -> Ids {
        Ids {
            id: ID::new(ClientID::new(7), clock),
            origin: ID::new(ClientID::new(3), 11),
            right_origin: ID::new(ClientID::new(1u64 << 40), 4_000_000_000),
            parent: ID::new(ClientID::new(9), 2),
        }
    }

    fn splice_mid(mut it: ItemBox, start: u32, end: u32, len: u32) -> ItemBox {
        if end + 1 < len {
            std::mem::forget(it.splice(end + 1, OffsetKind::Utf16));
        }
        if start > 0 {
            let mid = it.splice(start, OffsetKind::Utf16).unwrap();
            std::mem::forget(it);
            mid
        } else {
            it
        }
    }

    fn check(shape: Shape, mk: &dyn Fn() -> ItemContent, model: &ContentModel, ref_num: u8, len: u32,
             boundary: &dyn Fn(u32) -> bool) -> usize {
        let mut n = 0;
        for clock in [0u32, 5, u32::MAX - len] {
            let ids = ids(clock);
            for start in 0..len {
                for end in start..len {
                    if !boundary(start) || !boundary(end + 1) {
                        continue;
                    }
                    let mid = splice_mid(build_item(shape, &ids, mk()), start, end, len);
                    let mut real = Recorder::new();
                    mid.encode(&mut real);
                    let mut m = Recorder::new();
                    model_encode_slice(&mut m, shape, &ids, ref_num, model, start, end);
                    assert_eq!(real.n, m.n, "call count, cut {}..={}", start, end);
                    for i in 0..real.n {
                        assert!(real.ev[i] == m.ev[i], "event {} differs, cut {}..={}", i, start, end);
                    }
                    std::mem::forget(mid);
                    n += 1;
                }
            }
        }
        n
    }

    /// The reference model equals the real `splice` + `Item::encode` on every shape, every content
    /// used by the harnesses and every character-boundary cut.
    #[test]
    fn model_matches_real_splice() {
        let mut n = 0;
        for shape in SHAPES.iter().copied() {
            n += check(shape, &|| ItemContent::Deleted(5), &ContentModel::Deleted(5), 1, 5, &|_| true);
            for (text, len, bad) in [("abc", 3u32, 99u32), ("a\u{e9}\u{20ac}", 3, 99), ("a\u{1d11e}b", 4, 2),
                                     ("\u{1d11e}a", 3, 1), ("x", 1, 99)] {
                n += check(shape, &|| ItemContent::String(text.into()), &ContentModel::Str(text), 4, len,
                           &|u| u != bad);
            }
            let anys = [Any::BigInt(-5), Any::Bool(true), Any::BigInt(i64::MAX)];
            n += check(shape, &|| ItemContent::Any(anys.to_vec()), &ContentModel::AnyScalars(&anys), 8, 3,
                       &|_| true);
            let js = ["1", "[2]", "null"];
            n += check(shape, &|| ItemContent::JSON(js.iter().map(|s| s.to_string()).collect()),
                       &ContentModel::Json(&js), 2, 3, &|_| true);
        }
        println!("model_matches_real_splice: {} cuts validated", n);
        assert!(n > 500);
    }

    /// Grounding of the block-format model used by C09/R5: what `Item::encode` writes with the
    /// real `EncoderV1` / `EncoderV2` is read back by the real `Update::decode_block` as the same
    /// item, on every shape and every content kind used by the harnesses (concrete values).
    #[test]
    fn item_encode_decodes_back_v1_v2() {
        use yrs::updates::decoder::{DecoderV1, DecoderV2};
        use yrs::updates::encoder::{EncoderV1, EncoderV2};
        use yrs::encoding::read::Cursor;
        let contents: Vec<Box<dyn Fn() -> ItemContent>> = vec![
            Box::new(|| ItemContent::Deleted(5)),
            Box::new(|| ItemContent::String("a\u{1d11e}\u{e9}".into())),
            Box::new(|| ItemContent::Any(vec![Any::BigInt(-7), Any::Bool(true), Any::Null])),
            Box::new(|| ItemContent::JSON(vec!["1".into(), "[2]".into()])),
            Box::new(|| ItemContent::Binary(vec![1, 2, 3])),
            Box::new(|| ItemContent::Embed(Any::Number(9.5))),
            Box::new(|| ItemContent::Format(Arc::from("b"), Box::new(Any::Bool(true)))),
            Box::new(|| ItemContent::Type(yrs::branch::Branch::new(yrs::types::TypeRef::Array))),
            Box::new(|| ItemContent::Type(yrs::branch::Branch::new(yrs::types::TypeRef::XmlElement(Arc::from("p"))))),
        ];
        let mut n = 0;
        for shape in SHAPES.iter().copied() {
            for mk in contents.iter() {
                let ids = ids(5);
                let it = build_item(shape, &ids, mk());
                // v1
                let mut e = EncoderV1::new();
                it.encode(&mut e);
                let bytes = e.to_vec();
                let mut d = DecoderV1::from(bytes.as_slice());
                let back = hook::decode_block(ids.id, &mut d).unwrap().unwrap().into_item().unwrap();
                check_same(&it, &back, shape);
                // v2
                let mut e = EncoderV2::new();
                it.encode(&mut e);
                let bytes = e.to_vec();
                let mut d = DecoderV2::new(Cursor::new(bytes.as_slice())).unwrap();
                let back = hook::decode_block(ids.id, &mut d).unwrap().unwrap().into_item().unwrap();
                check_same(&it, &back, shape);
                n += 2;
                std::mem::forget((it, back));
            }
        }
        println!("item_encode_decodes_back_v1_v2: {} round-trips validated", n);
    }

    fn check_same(a: &ItemBox, b: &ItemBox, shape: Shape) {
        assert_eq!(a.id(), b.id());
        assert_eq!(a.len(), b.len());
        assert_eq!(a.origin(), b.origin());
        assert_eq!(a.right_origin(), b.right_origin());
        if shape.origin || shape.right_origin {
            // parent info is omitted when an origin identifies the neighbourhood
            assert!(b.parent() == Parent::Unknown && b.parent_sub().is_none());
        } else {
            assert!(a.parent() == b.parent());
            assert_eq!(a.parent_sub(), b.parent_sub());
        }
        match (a.content(), b.content()) {
            (ItemContent::Type(x), ItemContent::Type(y)) => assert!(x.type_ref() == y.type_ref()),
            (x, y) => assert!(x == y),
        }
    }
}
