//! Trivial harness used by the driver to (re)build yrs + this crate into the seed target dir.
#[kani::proof]
fn seed() {
    let x: u8 = kani::any();
    kani::cover!(x == 1, "reach");
    assert!(x as u32 + 1 > 0);
}
