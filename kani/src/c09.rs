//! C09 — wire formats round-trip; v1 and v2 carry the same information (DESIGN.md 4.1).
use crate::util::*;
use yrs::encoding::varint::{Signed, SignedVarInt, VarInt};

// ---------------------------------------------------------------------------------------------
// R1: var-ints, every value of every width
// ---------------------------------------------------------------------------------------------
macro_rules! r1_var {
    ($name:ident, $t:ty, $unwind:expr, |$x:ident| $valid:expr) => {
        #[kani::proof]
        #[kani::unwind($unwind)]
        fn $name() {
            let $x: $t = kani::any();
            kani::assume($valid);
            let mut out: Vec<u8> = Vec::new();
            out.write_var($x);
            let n = out.len();
            let mut c = Cursor::new(&out);
            match c.read_var::<$t>() {
                Ok(y) => assert!(y == $x),
                Err(_) => panic!("a written var-int must decode"),
            }
            // the decoder consumes exactly what the encoder wrote
            assert!(c.next == n);
            kani::cover!(n >= 2, "multi-byte encoding");
            kani::cover!(true, "reach");
            std::mem::forget(out);
        }
    };
}
r1_var!(r1_var_u8, u8, 8, |x| true);
r1_var!(r1_var_u16, u16, 8, |x| true);
r1_var!(r1_var_u32, u32, 8, |x| true);
r1_var!(r1_var_u64, u64, 12, |x| true);
r1_var!(r1_var_usize, usize, 12, |x| true);
r1_var!(r1_var_u128, u128, 21, |x| true);
r1_var!(r1_var_i8, i8, 8, |x| true);
r1_var!(r1_var_i16, i16, 8, |x| true);
r1_var!(r1_var_i32, i32, 8, |x| true);
// i64::MIN has no 63-bit magnitude: not representable in the lib0 signed format and never
// written by the library (Any::BigInt uses the fixed-width writer)
r1_var!(r1_var_i64, i64, 12, |x| x != i64::MIN);
r1_var!(r1_var_isize, isize, 12, |x| x != isize::MIN);

/// `Signed<i64>` (distinguishes 0 and -0, used by the v2 run-length columns).
#[kani::proof]
#[kani::unwind(12)]
fn r1_signed_i64() {
    let v: i64 = kani::any();
    let neg: bool = kani::any();
    // validity predicate of `Signed`: the flag agrees with the sign of a non-zero value
    kani::assume(v != i64::MIN);
    kani::assume((v < 0) == neg || v == 0);
    let s = Signed::new(v, neg);
    let mut out: Vec<u8> = Vec::new();
    out.write_var_signed(&s);
    let n = out.len();
    let mut c = Cursor::new(&out);
    match c.read_var_signed::<i64>() {
        Ok(y) => {
            assert!(y.value() == v);
            assert!(y.is_negative() == neg);
        }
        Err(_) => panic!("a written signed var-int must decode"),
    }
    assert!(c.next == n);
    kani::cover!(v == 0 && neg, "minus zero");
    kani::cover!(n == 10, "longest encoding");
    kani::cover!(true, "reach");
    std::mem::forget(out);
}

// ---------------------------------------------------------------------------------------------
// R2: fixed-width scalars, buffers, strings
// ---------------------------------------------------------------------------------------------
#[kani::proof]
#[kani::unwind(10)]
fn r2_fixed_width() {
    let a: u16 = kani::any();
    let b: u32 = kani::any();
    let c_: u32 = kani::any();
    let d: u64 = kani::any();
    let e: i64 = kani::any();
    let f: u32 = kani::any(); // f32 bit pattern
    let g: u64 = kani::any(); // f64 bit pattern
    let h: u8 = kani::any();
    let mut out: Vec<u8> = Vec::new();
    out.write_u16(a);
    out.write_u32(b);
    out.write_u32_be(c_);
    out.write_u64(d);
    out.write_i64(e);
    out.write_f32(f32::from_bits(f));
    out.write_f64(f64::from_bits(g));
    out.write_u8(h);
    assert!(out.len() == 2 + 4 + 4 + 8 + 8 + 4 + 8 + 1);
    let mut c = Cursor::new(&out);
    assert!(c.read_u16().ok() == Some(a));
    assert!(c.read_u32().ok() == Some(b));
    assert!(c.read_u32_be().ok() == Some(c_));
    assert!(c.read_u64().ok() == Some(d));
    assert!(c.read_i64().ok() == Some(e));
    assert!(c.read_f32().ok().map(|x| x.to_bits()) == Some(f));
    assert!(c.read_f64().ok().map(|x| x.to_bits()) == Some(g));
    assert!(c.read_u8().ok() == Some(h));
    assert!(!c.has_content());
    kani::cover!(true, "reach");
    std::mem::forget(out);
}

macro_rules! r2_buf {
    ($name:ident, $len:expr) => {
        #[kani::proof]
        #[kani::unwind(8)]
        fn $name() {
            let data: [u8; $len] = kani::any();
            let trailer: u8 = kani::any();
            let mut out: Vec<u8> = Vec::new();
            out.write_buf(&data[..]);
            out.write_u8(trailer);
            let mut c = Cursor::new(&out);
            match c.read_buf() {
                Ok(b) => {
                    assert!(b.len() == $len);
                    let mut i = 0;
                    while i < $len {
                        assert!(b[i] == data[i]);
                        i += 1;
                    }
                }
                Err(_) => panic!("a written buffer must decode"),
            }
            assert!(c.read_u8().ok() == Some(trailer));
            assert!(!c.has_content());
            kani::cover!(true, "reach");
            std::mem::forget(out);
        }
    };
}
r2_buf!(r2_buf_0, 0);
r2_buf!(r2_buf_1, 1);
r2_buf!(r2_buf_3, 3);

/// One character of the 4-letter alphabet { 'a', 'é', '€', '𝄞' } (1, 2, 3, 4 UTF-8 bytes; the last
/// one is a surrogate pair in UTF-16), selected by a symbolic index.
pub fn any_char_of_width(width: usize) -> char {
    // within one width the code point is symbolic over a range of that width
    match width {
        1 => {
            let c: u8 = kani::any();
            kani::assume(c < 0x80);
            c as char
        }
        2 => {
            let c: u32 = kani::any();
            kani::assume(c >= 0x80 && c < 0x800);
            char::from_u32(c).unwrap()
        }
        3 => {
            let c: u32 = kani::any();
            kani::assume(c >= 0x800 && c < 0x10000 && !(c >= 0xD800 && c < 0xE000));
            char::from_u32(c).unwrap()
        }
        _ => {
            let c: u32 = kani::any();
            kani::assume(c >= 0x10000 && c < 0x110000);
            char::from_u32(c).unwrap()
        }
    }
}

/// Builds a string whose characters have the given (concrete) UTF-8 widths and symbolic code
/// points; returns the bytes in a fixed array plus the byte length.
pub fn any_string_of(widths: &[usize]) -> ([u8; 16], usize) {
    let mut buf = [0u8; 16];
    let mut pos = 0;
    let mut i = 0;
    while i < widths.len() {
        let ch = any_char_of_width(widths[i]);
        let mut tmp = [0u8; 4];
        let s = ch.encode_utf8(&mut tmp);
        let b = s.as_bytes();
        let mut j = 0;
        while j < widths[i] {
            buf[pos] = b[j];
            pos += 1;
            j += 1;
        }
        i += 1;
    }
    (buf, pos)
}

macro_rules! r2_string {
    ($name:ident, $widths:expr) => {
        #[kani::proof]
        #[kani::unwind(10)]
        #[kani::stub(std::str::from_utf8, from_utf8_model)]
        fn $name() {
            let (bytes, n) = any_string_of($widths);
            let s = unsafe { std::str::from_utf8_unchecked(&bytes[..n]) };
            let trailer: u8 = kani::any();
            let mut out: Vec<u8> = Vec::new();
            out.write_string(s);
            out.write_u8(trailer);
            let mut c = Cursor::new(&out);
            match c.read_string() {
                Ok(t) => {
                    let tb = t.as_bytes();
                    assert!(tb.len() == n);
                    let mut i = 0;
                    while i < 8 {
                        if i < n {
                            assert!(tb[i] == bytes[i]);
                        }
                        i += 1;
                    }
                }
                Err(_) => panic!("a written string must decode"),
            }
            assert!(c.read_u8().ok() == Some(trailer));
            assert!(!c.has_content());
            kani::cover!(true, "reach");
            std::mem::forget(out);
        }
    };
}
r2_string!(r2_string_empty, &[]);
r2_string!(r2_string_1, &[1]);
r2_string!(r2_string_2, &[2]);
r2_string!(r2_string_3, &[3]);
r2_string!(r2_string_4, &[4]);
r2_string!(r2_string_1_4, &[1, 4]);
r2_string!(r2_string_3_2, &[3, 2]);
