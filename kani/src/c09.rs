//! C09 — wire formats round-trip; v1 and v2 carry the same information (DESIGN.md 4.1).
use crate::util::*;
use yrs::encoding::varint::{Signed, SignedVarInt, VarInt};

// ---------------------------------------------------------------------------------------------
// R1: var-ints, every value of every width
// ---------------------------------------------------------------------------------------------
macro_rules! r1_var {
    ($name:ident, $t:ty, $unwind:expr, |$x:ident| $valid:expr) => {
        #[kani::proof]
        #[kani::unwind($unwind)]
        fn $name() {
            let $x: $t = kani::any();
            kani::assume($valid);
            let mut out: Vec<u8> = Vec::new();
            out.write_var($x);
            let n = out.len();
            let mut c = Cursor::new(&out);
            match c.read_var::<$t>() {
                Ok(y) => assert!(y == $x),
                Err(_) => panic!("a written var-int must decode"),
            }
            // the decoder consumes exactly what the encoder wrote
            assert!(c.next == n);
            kani::cover!(n >= 2, "multi-byte encoding");
            kani::cover!(true, "reach");
            std::mem::forget(out);
        }
    };
}
r1_var!(r1_var_u8, u8, 8, |x| true);
r1_var!(r1_var_u16, u16, 8, |x| true);
r1_var!(r1_var_u32, u32, 8, |x| true);
r1_var!(r1_var_u64, u64, 12, |x| true);
r1_var!(r1_var_usize, usize, 12, |x| true);
r1_var!(r1_var_u128, u128, 21, |x| true);
r1_var!(r1_var_i8, i8, 8, |x| true);
r1_var!(r1_var_i16, i16, 8, |x| true);
r1_var!(r1_var_i32, i32, 8, |x| true);
// i64::MIN has no 63-bit magnitude: not representable in the lib0 signed format and never
// written by the library (Any::BigInt uses the fixed-width writer)
r1_var!(r1_var_i64, i64, 12, |x| x != i64::MIN);
r1_var!(r1_var_isize, isize, 12, |x| x != isize::MIN);

/// `Signed<i64>` (distinguishes 0 and -0, used by the v2 run-length columns).
#[kani::proof]
#[kani::unwind(12)]
fn r1_signed_i64() {
    let v: i64 = kani::any();
    let neg: bool = kani::any();
    // validity predicate of `Signed`: the flag agrees with the sign of a non-zero value
    kani::assume(v != i64::MIN);
    kani::assume((v < 0) == neg || v == 0);
    let s = Signed::new(v, neg);
    let mut out: Vec<u8> = Vec::new();
    out.write_var_signed(&s);
    let n = out.len();
    let mut c = Cursor::new(&out);
    match c.read_var_signed::<i64>() {
        Ok(y) => {
            assert!(y.value() == v);
            assert!(y.is_negative() == neg);
        }
        Err(_) => panic!("a written signed var-int must decode"),
    }
    assert!(c.next == n);
    kani::cover!(v == 0 && neg, "minus zero");
    kani::cover!(n == 10, "longest encoding");
    kani::cover!(true, "reach");
    std::mem::forget(out);
}

// ---------------------------------------------------------------------------------------------
// R2: fixed-width scalars, buffers, strings
// ---------------------------------------------------------------------------------------------
#[kani::proof]
#[kani::unwind(10)]
fn r2_fixed_width() {
    let a: u16 = kani::any();
    let b: u32 = kani::any();
    let c_: u32 = kani::any();
    let d: u64 = kani::any();
    let e: i64 = kani::any();
    let f: u32 = kani::any(); // f32 bit pattern
    let g: u64 = kani::any(); // f64 bit pattern
    let h: u8 = kani::any();
    let mut out: Vec<u8> = Vec::new();
    out.write_u16(a);
    out.write_u32(b);
    out.write_u32_be(c_);
    out.write_u64(d);
    out.write_i64(e);
    out.write_f32(f32::from_bits(f));
    out.write_f64(f64::from_bits(g));
    out.write_u8(h);
    assert!(out.len() == 2 + 4 + 4 + 8 + 8 + 4 + 8 + 1);
    let mut c = Cursor::new(&out);
    assert!(c.read_u16().ok() == Some(a));
    assert!(c.read_u32().ok() == Some(b));
    assert!(c.read_u32_be().ok() == Some(c_));
    assert!(c.read_u64().ok() == Some(d));
    assert!(c.read_i64().ok() == Some(e));
    assert!(c.read_f32().ok().map(|x| x.to_bits()) == Some(f));
    assert!(c.read_f64().ok().map(|x| x.to_bits()) == Some(g));
    assert!(c.read_u8().ok() == Some(h));
    assert!(!c.has_content());
    kani::cover!(true, "reach");
    std::mem::forget(out);
}

macro_rules! r2_buf {
    ($name:ident, $len:expr) => {
        #[kani::proof]
        #[kani::unwind(8)]
        fn $name() {
            let data: [u8; $len] = kani::any();
            let trailer: u8 = kani::any();
            let mut out: Vec<u8> = Vec::new();
            out.write_buf(&data[..]);
            out.write_u8(trailer);
            let mut c = Cursor::new(&out);
            match c.read_buf() {
                Ok(b) => {
                    assert!(b.len() == $len);
                    let mut i = 0;
                    while i < $len {
                        assert!(b[i] == data[i]);
                        i += 1;
                    }
                }
                Err(_) => panic!("a written buffer must decode"),
            }
            assert!(c.read_u8().ok() == Some(trailer));
            assert!(!c.has_content());
            kani::cover!(true, "reach");
            std::mem::forget(out);
        }
    };
}
r2_buf!(r2_buf_0, 0);
r2_buf!(r2_buf_1, 1);
r2_buf!(r2_buf_3, 3);

/// One character of the 4-letter alphabet { 'a', 'é', '€', '𝄞' } (1, 2, 3, 4 UTF-8 bytes; the last
/// one is a surrogate pair in UTF-16), selected by a symbolic index.
pub fn any_char_of_width(width: usize) -> char {
    // within one width the code point is symbolic over a range of that width
    match width {
        1 => {
            let c: u8 = kani::any();
            kani::assume(c < 0x80);
            c as char
        }
        2 => {
            let c: u32 = kani::any();
            kani::assume(c >= 0x80 && c < 0x800);
            char::from_u32(c).unwrap()
        }
        3 => {
            let c: u32 = kani::any();
            kani::assume(c >= 0x800 && c < 0x10000 && !(c >= 0xD800 && c < 0xE000));
            char::from_u32(c).unwrap()
        }
        _ => {
            let c: u32 = kani::any();
            kani::assume(c >= 0x10000 && c < 0x110000);
            char::from_u32(c).unwrap()
        }
    }
}

/// Builds a string whose characters have the given (concrete) UTF-8 widths and symbolic code
/// points; returns the bytes in a fixed array plus the byte length.
pub fn any_string_of(widths: &[usize]) -> ([u8; 16], usize) {
    let mut buf = [0u8; 16];
    let mut pos = 0;
    let mut i = 0;
    while i < widths.len() {
        let ch = any_char_of_width(widths[i]);
        let mut tmp = [0u8; 4];
        let s = ch.encode_utf8(&mut tmp);
        let b = s.as_bytes();
        let mut j = 0;
        while j < widths[i] {
            buf[pos] = b[j];
            pos += 1;
            j += 1;
        }
        i += 1;
    }
    (buf, pos)
}

macro_rules! r2_string {
    ($name:ident, $widths:expr) => {
        #[kani::proof]
        #[kani::unwind(10)]
        #[kani::stub(std::str::from_utf8, from_utf8_model)]
        fn $name() {
            let (bytes, n) = any_string_of($widths);
            let s = unsafe { std::str::from_utf8_unchecked(&bytes[..n]) };
            let trailer: u8 = kani::any();
            let mut out: Vec<u8> = Vec::new();
            out.write_string(s);
            out.write_u8(trailer);
            let mut c = Cursor::new(&out);
            match c.read_string() {
                Ok(t) => {
                    let tb = t.as_bytes();
                    assert!(tb.len() == n);
                    let mut i = 0;
                    while i < 8 {
                        if i < n {
                            assert!(tb[i] == bytes[i]);
                        }
                        i += 1;
                    }
                }
                Err(_) => panic!("a written string must decode"),
            }
            assert!(c.read_u8().ok() == Some(trailer));
            assert!(!c.has_content());
            kani::cover!(true, "reach");
            std::mem::forget(out);
        }
    };
}
r2_string!(r2_string_empty, &[]);
r2_string!(r2_string_1, &[1]);
r2_string!(r2_string_2, &[2]);
r2_string!(r2_string_3, &[3]);
r2_string!(r2_string_4, &[4]);
r2_string!(r2_string_1_4, &[1, 4]);
r2_string!(r2_string_3_2, &[3, 2]);

// ---------------------------------------------------------------------------------------------
// R9: Any scalars (one instance per variant; every payload value)
// ---------------------------------------------------------------------------------------------
fn r9_roundtrip(x: &Any) -> Any {
    let mut out: Vec<u8> = Vec::new();
    x.encode(&mut out);
    let n = out.len();
    let mut c = Cursor::new(&out);
    let y = match Any::decode(&mut c) {
        Ok(y) => y,
        Err(_) => panic!("an encoded Any must decode"),
    };
    assert!(c.next == n);
    std::mem::forget(out);
    y
}

#[kani::proof]
#[kani::unwind(12)]
#[kani::stub(std::hash::RandomState::new, random_state_new)]
fn r9_any_bigint() {
    let v: i64 = kani::any();
    let y = r9_roundtrip(&Any::BigInt(v));
    assert!(matches!(&y, Any::BigInt(x) if *x == v));
    std::mem::forget(y);
    kani::cover!(true, "reach");
}

#[kani::proof]
#[kani::unwind(12)]
#[kani::stub(std::hash::RandomState::new, random_state_new)]
fn r9_any_buffer() {
    let data: [u8; 3] = kani::any();
    let x = Any::Buffer(Arc::from(&data[..]));
    match r9_roundtrip(&x) {
        Any::Buffer(b) => {
            assert!(b.len() == 3 && b[0] == data[0] && b[1] == data[1] && b[2] == data[2]);
            std::mem::forget(b);
        }
        _ => panic!("a buffer must decode as a buffer"),
    }
    kani::cover!(true, "reach");
    std::mem::forget(x);
}

// ---------------------------------------------------------------------------------------------
// R3: v2 column decoders against a reference model of the lib0 v2 column formats.
// The column under test holds an arbitrary byte string (well-framed buffer, as in C10/T2); the
// real `DecoderV2` reads are compared, read by read, with a short model that parses the same
// bytes with the (separately decided, R1/T1) var-int readers and applies the format definition:
//   UintOptRle:    signed var-int s; s negative (incl. -0) => value = -s, count = var-uint + 2;
//                  else value = s, count = 1
//   IntDiffOptRle: var-int d; diff = d >> 1 (arithmetic); count = (d & 1) ? var-uint + 2 : 1;
//                  every read adds diff to the previous value (starting from 0)
//   Rle:           byte value; count = var-uint + 1 if more bytes follow, else the value repeats
// ---------------------------------------------------------------------------------------------
use crate::c10::v2_columns;

pub struct UintOptRleModel<'a> {
    c: Cursor<'a>,
    last: u64,
    count: u32,
}
impl<'a> UintOptRleModel<'a> {
    pub fn new(buf: &'a [u8]) -> Self {
        UintOptRleModel { c: Cursor::new(buf), last: 0, count: 0 }
    }
    pub fn read(&mut self) -> Option<u64> {
        if self.count == 0 {
            let s = self.c.read_var_signed::<i64>().ok()?;
            if s.is_negative() {
                let n: u32 = self.c.read_var().ok()?;
                self.count = n.checked_add(2)?;
                self.last = s.value().unsigned_abs();
            } else {
                self.count = 1;
                self.last = s.value() as u64;
            }
        }
        self.count -= 1;
        Some(self.last)
    }
}

pub struct IntDiffOptRleModel<'a> {
    c: Cursor<'a>,
    last: u32,
    count: u32,
    diff: i32,
}
impl<'a> IntDiffOptRleModel<'a> {
    pub fn new(buf: &'a [u8]) -> Self {
        IntDiffOptRleModel { c: Cursor::new(buf), last: 0, count: 0, diff: 0 }
    }
    pub fn read(&mut self) -> Option<u32> {
        if self.count == 0 {
            let d: i32 = self.c.read_var().ok()?;
            // floor division by two, written without a shift
            self.diff = d.div_euclid(2);
            self.count = if d & 1 != 0 {
                let n: u32 = self.c.read_var().ok()?;
                n.checked_add(2)?
            } else {
                1
            };
        }
        self.last = (self.last as i64 + self.diff as i64) as u32;
        self.count -= 1;
        Some(self.last)
    }
}

macro_rules! r3_uint_col {
    ($name:ident, $col:expr, $k:expr, $r:expr, |$d:ident| $read:expr) => {
        #[kani::proof]
        #[kani::unwind(12)]
        fn $name() {
            let content: [u8; $k] = kani::any();
            let (buf, n) = v2_columns::<$k>($col, &content, $k, 99, &[]);
            let mut model = UintOptRleModel::new(&content[..]);
            match DecoderV2::new(Cursor::new(&buf[..n])) {
                Ok(mut $d) => {
                    let mut i = 0;
                    let mut alive = true;
                    while i < $r {
                        if alive {
                            let real: Option<u64> = $read;
                            let want = model.read();
                            assert!(real == want, "v2 UintOptRle column decodes differently from the format");
                            alive = real.is_some();
                            kani::cover!(i == $r - 1 && real.is_some(), "all reads ok");
                        }
                        i += 1;
                    }
                    std::mem::forget($d);
                }
                Err(_) => panic!("well-framed buffer"),
            }
            kani::cover!(true, "reach");
        }
    };
}
// a decoded client id above 53 bits is an error of `read_client`, not of the column format

/// The len column truncates to u32 / the type-ref column to u8 by `as`: the model applies the
/// same truncation (it is part of the reader's signature, not of the column format).
macro_rules! r3_uint_col_trunc {
    ($name:ident, $col:expr, $k:expr, $r:expr, $t:ty, |$d:ident| $read:expr) => {
        #[kani::proof]
        #[kani::unwind(12)]
        fn $name() {
            let content: [u8; $k] = kani::any();
            let (buf, n) = v2_columns::<$k>($col, &content, $k, 99, &[]);
            let mut model = UintOptRleModel::new(&content[..]);
            match DecoderV2::new(Cursor::new(&buf[..n])) {
                Ok(mut $d) => {
                    let mut i = 0;
                    let mut alive = true;
                    while i < $r {
                        if alive {
                            let real: Option<$t> = $read;
                            let want = model.read().map(|v| v as $t);
                            assert!(real == want, "v2 UintOptRle column decodes differently from the format");
                            alive = real.is_some();
                            kani::cover!(i == $r - 1 && real.is_some(), "all reads ok");
                        }
                        i += 1;
                    }
                    std::mem::forget($d);
                }
                Err(_) => panic!("well-framed buffer"),
            }
            kani::cover!(true, "reach");
        }
    };
}
r3_uint_col_trunc!(r3_col_len_u32, 8, 5, 3, u32, |d| d.read_len().ok());
r3_uint_col_trunc!(r3_col_type_ref_u8, 7, 5, 3, u8, |d| d.read_type_ref().ok());

macro_rules! r3_diff_col {
    ($name:ident, $col:expr, $k:expr, $r:expr, |$d:ident| $read:expr) => {
        #[kani::proof]
        #[kani::unwind(12)]
        fn $name() {
            let content: [u8; $k] = kani::any();
            // client column: value 1 repeated (the id readers consume one client per read)
            let (buf, n) = v2_columns::<$k>($col, &content, $k, 1, &[0x41, 5]);
            let mut model = IntDiffOptRleModel::new(&content[..]);
            match DecoderV2::new(Cursor::new(&buf[..n])) {
                Ok(mut $d) => {
                    let mut i = 0;
                    let mut alive = true;
                    while i < $r {
                        if alive {
                            let real: Option<u32> = $read;
                            let want = model.read();
                            assert!(real == want, "v2 IntDiffOptRle column decodes differently from the format");
                            alive = real.is_some();
                            kani::cover!(i == $r - 1 && real.is_some(), "all reads ok");
                        }
                        i += 1;
                    }
                    std::mem::forget($d);
                }
                Err(_) => panic!("well-framed buffer"),
            }
            kani::cover!(true, "reach");
        }
    };
}
r3_diff_col!(r3_col_left_clock, 2, 5, 3, |d| d.read_left_id().ok().map(|id| id.clock));
r3_diff_col!(r3_col_right_clock, 3, 5, 3, |d| d.read_right_id().ok().map(|id| id.clock));

/// Rle columns (info, parent info).
#[kani::proof]
#[kani::unwind(12)]
fn r3_col_info() {
    let content: [u8; 5] = kani::any();
    let k = any_len(5);
    let (buf, n) = v2_columns::<5>(4, &content, k, 99, &[]);
    // model
    let mut c = Cursor::new(&content[..k]);
    let mut last = 0u8;
    let mut count: i64 = 0;
    match DecoderV2::new(Cursor::new(&buf[..n])) {
        Ok(mut d) => {
            let mut i = 0;
            let mut alive = true;
            while i < 3 {
                if alive {
                    let real = d.read_info().ok();
                    let want: Option<u8> = (|| {
                        if count == 0 {
                            last = c.read_u8().ok()?;
                            if c.has_content() {
                                let n: u32 = c.read_var().ok()?;
                                count = n as i64 + 1;
                            } else {
                                count = -1;
                            }
                        }
                        if count > 0 {
                            count -= 1;
                        }
                        Some(last)
                    })();
                    assert!(real == want, "v2 Rle column decodes differently from the format");
                    alive = real.is_some();
                    kani::cover!(i == 2 && real.is_some(), "all reads ok");
                }
                i += 1;
            }
            std::mem::forget(d);
        }
        Err(_) => panic!("well-framed buffer"),
    }
    kani::cover!(true, "reach");
}


/// Client column: UintOptRle values that fit 53 bits come back as client ids, larger ones are
/// rejected (fix b59a39d).
#[kani::proof]
#[kani::unwind(12)]
fn r3_col_client() {
    let content: [u8; 5] = kani::any();
    let (buf, n) = v2_columns::<5>(1, &content, 5, 99, &[]);
    let mut model = UintOptRleModel::new(&content[..]);
    match DecoderV2::new(Cursor::new(&buf[..n])) {
        Ok(mut d) => {
            let mut i = 0;
            let mut alive = true;
            while i < 3 {
                if alive {
                    let real: Option<u64> = d.read_client().ok().map(|c| c.get());
                    let want = match model.read() {
                        Some(v) if v < (1u64 << 53) => Some(v),
                        _ => None,
                    };
                    assert!(real == want, "v2 client column decodes differently from the format");
                    alive = real.is_some();
                    kani::cover!(i == 2 && real.is_some(), "all reads ok");
                }
                i += 1;
            }
            std::mem::forget(d);
        }
        Err(_) => panic!("well-framed buffer"),
    }
    kani::cover!(true, "reach");
}

// ---------------------------------------------------------------------------------------------
// R5 (encoder half, v1 and v2 at once): `Item::encode` makes exactly the encoder calls the block
// format prescribes (reference model shared with C13/S1), for every shape, every content kind,
// all ids and clocks. Through the recording `Encoder` (see c13_model.rs).
// ---------------------------------------------------------------------------------------------
use crate::c13::{any_ids, build_item_k};
use crate::c13_model::{assert_same_events, model_encode_slice, ContentModel, Recorder, SHAPES};

macro_rules! r5_item_encode {
    ($name:ident, $shape:expr, $len:expr, $ref:expr, |$a:ident, $b:ident, $c:ident| $mk:expr, $model:expr) => {
        #[kani::proof]
        #[kani::unwind(14)]
        #[kani::stub(std::hash::RandomState::new, random_state_new)]
        #[kani::stub(std::intrinsics::catch_unwind, catch_unwind_stub)]
        fn $name() {
            let shape = SHAPES[$shape];
            let len: u32 = $len;
            let ids = any_ids(len);
            let $a: i64 = kani::any();
            let $b: bool = kani::any();
            let $c: u8 = kani::any();
            let whole = build_item_k(shape, &ids, $mk);
            assert!(whole.len() == len);
            let mut real = Recorder::new();
            whole.encode(&mut real);
            let mut model = Recorder::new();
            model_encode_slice(&mut model, shape, &ids, $ref, &$model, 0, len - 1);
            assert_same_events(&real, &model);
            kani::cover!(real.n >= 3, "several encoder calls");
            kani::cover!(true, "reach");
            std::mem::forget(whole);
        }
    };
}
r5_item_encode!(r5_encode_deleted_sh0, 0, 5, 1, |a, b, c| ItemContent::Deleted(5), ContentModel::Deleted(5));
r5_item_encode!(r5_encode_deleted_sh1, 1, 5, 1, |a, b, c| ItemContent::Deleted(5), ContentModel::Deleted(5));
r5_item_encode!(r5_encode_deleted_sh2, 2, 5, 1, |a, b, c| ItemContent::Deleted(5), ContentModel::Deleted(5));
r5_item_encode!(r5_encode_deleted_sh3, 3, 5, 1, |a, b, c| ItemContent::Deleted(5), ContentModel::Deleted(5));
r5_item_encode!(r5_encode_deleted_sh4, 4, 5, 1, |a, b, c| ItemContent::Deleted(5), ContentModel::Deleted(5));
r5_item_encode!(r5_encode_deleted_sh5, 5, 5, 1, |a, b, c| ItemContent::Deleted(5), ContentModel::Deleted(5));
r5_item_encode!(r5_encode_deleted_sh6, 6, 5, 1, |a, b, c| ItemContent::Deleted(5), ContentModel::Deleted(5));
r5_item_encode!(r5_encode_deleted_sh7, 7, 5, 1, |a, b, c| ItemContent::Deleted(5), ContentModel::Deleted(5));
r5_item_encode!(r5_encode_string_sh5, 5, 3, 4, |a, b, c| ItemContent::String("a\u{e9}\u{20ac}".into()),
    ContentModel::Str("a\u{e9}\u{20ac}"));
r5_item_encode!(r5_encode_any_sh2, 2, 2, 8, |a, b, c| {
    let mut v = Vec::with_capacity(4);
    v.push(Any::BigInt(a));
    v.push(Any::Bool(b));
    ItemContent::Any(v)
}, ContentModel::AnyScalars(&[Any::BigInt(a), Any::Bool(b)]));
r5_item_encode!(r5_encode_json_sh3, 3, 2, 2, |a, b, c| {
    let mut v = Vec::with_capacity(4);
    v.push(String::from("1"));
    v.push(String::from("[2]"));
    ItemContent::JSON(v)
}, ContentModel::Json(&["1", "[2]"]));
r5_item_encode!(r5_encode_binary_sh4, 4, 1, 3, |a, b, c| {
    let mut v = Vec::with_capacity(4);
    v.push(c);
    v.push(7u8);
    ItemContent::Binary(v)
}, ContentModel::Binary(&[c, 7u8]));
r5_item_encode!(r5_encode_embed_sh6, 6, 1, 5, |a, b, c| ItemContent::Embed(Any::BigInt(a)),
    ContentModel::Embed(&Any::BigInt(a)));
r5_item_encode!(r5_encode_format_sh1, 1, 1, 6, |a, b, c| ItemContent::Format(Arc::from("b"), Box::new(Any::Bool(b))),
    ContentModel::Format("b", &Any::Bool(b)));
r5_item_encode!(r5_encode_type_array_sh0, 0, 1, 7, |a, b, c| ItemContent::Type(yrs::branch::Branch::new(yrs::types::TypeRef::Array)),
    ContentModel::Type(0, None));
r5_item_encode!(r5_encode_type_xml_sh7, 7, 1, 7, |a, b, c| ItemContent::Type(yrs::branch::Branch::new(yrs::types::TypeRef::XmlElement(Arc::from("p")))),
    ContentModel::Type(3, Some("p")));


/// The same for the path `encode_state_as_update` / `encode_diff` take for every block of the
/// store: `Block::as_slice()` + `BlockSlice::encode` (untrimmed `ItemSlice::encode` ->
/// `ItemContent::encode_slice(0, len - 1)`).
macro_rules! r5_slice_encode {
    ($name:ident, $shape:expr, $len:expr, $ref:expr, |$a:ident, $b:ident| $mk:expr, $model:expr) => {
        #[kani::proof]
        #[kani::unwind(14)]
        #[kani::stub(std::hash::RandomState::new, random_state_new)]
        #[kani::stub(std::intrinsics::catch_unwind, catch_unwind_stub)]
        fn $name() {
            let shape = SHAPES[$shape];
            let len: u32 = $len;
            let ids = any_ids(len);
            let $a: i64 = kani::any();
            let $b: bool = kani::any();
            let whole = build_item_k(shape, &ids, $mk);
            let mut real = Recorder::new();
            whole.encode_trimmed(0, 0, &mut real);
            let mut model = Recorder::new();
            model_encode_slice(&mut model, shape, &ids, $ref, &$model, 0, len - 1);
            assert_same_events(&real, &model);
            kani::cover!(true, "reach");
            std::mem::forget(whole);
        }
    };
}
r5_slice_encode!(r5_slice_deleted_sh3, 3, 5, 1, |a, b| ItemContent::Deleted(5), ContentModel::Deleted(5));
r5_slice_encode!(r5_slice_string_sh0, 0, 3, 4, |a, b| ItemContent::String("a\u{1d11e}".into()),
    ContentModel::Str("a\u{1d11e}"));
r5_slice_encode!(r5_slice_any_sh5, 5, 3, 8, |a, b| {
    let mut v = Vec::with_capacity(4);
    v.push(Any::BigInt(a));
    v.push(Any::Bool(b));
    v.push(Any::Null);
    ItemContent::Any(v)
}, ContentModel::AnyScalars(&[Any::BigInt(a), Any::Bool(b), Any::Null]));
r5_slice_encode!(r5_slice_json_sh2, 2, 3, 2, |a, b| {
    let mut v = Vec::with_capacity(4);
    v.push(String::from("1"));
    v.push(String::from("[2]"));
    v.push(String::from("3"));
    ItemContent::JSON(v)
}, ContentModel::Json(&["1", "[2]", "3"]));
r5_slice_encode!(r5_slice_binary_sh4, 4, 1, 3, |a, b| {
    let mut v = Vec::with_capacity(4);
    v.push(9u8);
    ItemContent::Binary(v)
}, ContentModel::Binary(&[9u8]));

// ---------------------------------------------------------------------------------------------
// R3 (delete-set stream): `DecoderV2::read_ds_clock` / `read_ds_len` against the format
// (cumulative clocks, lengths stored minus one) on every 6-byte rest buffer.
// ---------------------------------------------------------------------------------------------
#[kani::proof]
#[kani::unwind(12)]
fn r3_ds_stream() {
    let content: [u8; 6] = kani::any();
    let (buf, n) = v2_columns::<6>(9, &content, 6, 99, &[]);
    let mut m = Cursor::new(&content[..]);
    let mut cur: u64 = 0;
    match DecoderV2::new(Cursor::new(&buf[..n])) {
        Ok(mut d) => {
            let mut i = 0;
            let mut alive = true;
            while i < 2 {
                if alive {
                    // clock
                    let real = d.read_ds_clock().ok();
                    let want: Option<u32> = match m.read_var::<u32>() {
                        Ok(v) => {
                            cur += v as u64;
                            if cur <= u32::MAX as u64 { Some(cur as u32) } else { None }
                        }
                        Err(_) => None,
                    };
                    assert!(real == want, "v2 delete-set clock decodes differently from the format");
                    alive = real.is_some();
                    if alive {
                        let real = d.read_ds_len().ok();
                        let want: Option<u32> = match m.read_var::<u32>() {
                            Ok(v) => {
                                let len = v as u64 + 1;
                                cur += len;
                                if len <= u32::MAX as u64 && cur <= u32::MAX as u64 { Some(len as u32) } else { None }
                            }
                            Err(_) => None,
                        };
                        assert!(real == want, "v2 delete-set length decodes differently from the format");
                        alive = real.is_some();
                        kani::cover!(i == 1 && alive, "two ranges read");
                    }
                }
                i += 1;
            }
            std::mem::forget(d);
        }
        Err(_) => panic!("well-framed buffer"),
    }
    kani::cover!(true, "reach");
}

// ---------------------------------------------------------------------------------------------
// R6 / R7 / R8 (encoder halves through the recording Encoder): delete-set ranges, sticky indexes
// and sync-protocol messages make exactly the encoder calls their formats prescribe.
// ---------------------------------------------------------------------------------------------
use yrs::sync::protocol::{Message, SyncMessage};
use yrs::{Assoc, IndexScope, StickyIndex};

#[kani::proof]
#[kani::unwind(14)]
fn r6_id_range_encode() {
    let a: (u32, u32) = kani::any();
    let b: (u32, u32) = kani::any();
    kani::assume(a.0 < a.1 && a.1 < b.0 && b.0 < b.1);
    let mut v: Vec<(std::ops::Range<u32>, ())> = Vec::with_capacity(4);
    v.push((a.0..a.1, ()));
    v.push((b.0..b.1, ()));
    let r = hook::id_ranges_from_raw(smallvec::SmallVec::from_vec(v));
    let mut real = Recorder::new();
    r.encode(&mut real);
    let mut model = Recorder::new();
    model.write_var(2u32);
    model.write_ds_clock(a.0);
    model.write_ds_len(a.1 - a.0);
    model.write_ds_clock(b.0);
    model.write_ds_len(b.1 - b.0);
    assert_same_events(&real, &model);
    kani::cover!(true, "reach");
    std::mem::forget(r);
}

use crate::c13_model::RecorderN;

macro_rules! r7_sticky {
    ($name:ident, $which:expr) => {
        #[kani::proof]
        #[kani::unwind(30)]
        fn $name() {
            let id = any_id();
            let after: bool = kani::any();
            let assoc = if after { Assoc::After } else { Assoc::Before };
            let scope = match $which {
                0 => IndexScope::Relative(id),
                1 => IndexScope::Nested(id),
                _ => IndexScope::Root(Arc::from("r\u{e9}")),
            };
            let x = StickyIndex::new(scope, assoc);
            let mut real: RecorderN<24> = RecorderN::new();
            x.encode(&mut real);
            let mut model: RecorderN<24> = RecorderN::new();
            match $which {
                0 => {
                    model.write_var(0u8);
                    model.write_var(id.client.get());
                    model.write_var(id.clock);
                }
                1 => {
                    model.write_var(2u8);
                    model.write_var(id.client.get());
                    model.write_var(id.clock);
                }
                _ => {
                    model.write_var(1u8);
                    model.write_string("r\u{e9}");
                }
            }
            // Assoc: After = 0, Before = -1 as a signed var-int
            model.write_var(if after { 0i8 } else { -1i8 });
            assert_same_events(&real, &model);
            kani::cover!(!after, "assoc before");
            kani::cover!(true, "reach");
            std::mem::forget(x);
        }
    };
}
r7_sticky!(r7_sticky_encode_relative, 0);
r7_sticky!(r7_sticky_encode_nested, 1);
r7_sticky!(r7_sticky_encode_root, 2);

macro_rules! r8_message {
    ($name:ident, |$tag:ident, $p:ident| $msg:expr, |$model:ident| $calls:expr) => {
        #[kani::proof]
        #[kani::unwind(14)]
        fn $name() {
            let $tag: u8 = kani::any();
            let $p: [u8; 2] = kani::any();
            kani::assume($tag > 3);
            let msg: Message = $msg;
            let mut real = Recorder::new();
            msg.encode(&mut real);
            let mut $model = Recorder::new();
            $calls;
            assert_same_events(&real, &$model);
            kani::cover!($tag >= 128, "tag needing two bytes");
            kani::cover!(true, "reach");
            std::mem::forget(msg);
        }
    };
}
fn vec2(p: &[u8; 2]) -> Vec<u8> {
    let mut v = Vec::with_capacity(4);
    v.push(p[0]);
    v.push(p[1]);
    v
}
r8_message!(r8_msg_auth_granted, |tag, p| Message::Auth(None), |m| {
    m.write_var(2u8);
    m.write_var(1u8);
});
r8_message!(r8_msg_auth_denied, |tag, p| Message::Auth(Some(String::from("no"))), |m| {
    m.write_var(2u8);
    m.write_var(0u8);
    m.write_string("no");
});
r8_message!(r8_msg_query, |tag, p| Message::AwarenessQuery, |m| m.write_var(3u8));
r8_message!(r8_msg_custom, |tag, p| Message::Custom(tag, vec2(&p)), |m| {
    m.write_var(tag);
    m.write_buf(&p[..]);
});
r8_message!(r8_msg_sync_step2, |tag, p| Message::Sync(SyncMessage::SyncStep2(vec2(&p))), |m| {
    m.write_var(0u8);
    m.write_var(1u8);
    m.write_buf(&p[..]);
});
r8_message!(r8_msg_sync_update, |tag, p| Message::Sync(SyncMessage::Update(vec2(&p))), |m| {
    m.write_var(0u8);
    m.write_var(2u8);
    m.write_buf(&p[..]);
});

/// `Any::Number` encoding selection (integer / f32 / f64) against the lib0 rule, every f64 bit
/// pattern: integers inside the 53-bit safe range as var-ints, values exactly representable as
/// f32 as 4 bytes, everything else as 8 bytes.
#[kani::proof]
#[kani::unwind(18)]
fn r9_any_number_encode() {
    let bits: u64 = kani::any();
    let v = f64::from_bits(bits);
    let mut real: RecorderN<16> = RecorderN::new();
    Any::Number(v).encode(&mut real);
    let mut model: RecorderN<16> = RecorderN::new();
    const MAX_SAFE: f64 = 9007199254740991.0; // 2^53 - 1
    let t = v.trunc();
    if t == v && t <= MAX_SAFE && t >= -MAX_SAFE {
        model.write_u8(125);
        model.write_var(t as i64);
    } else if ((v as f32) as f64) == v {
        model.write_u8(124);
        model.write_all(&(v as f32).to_be_bytes());
    } else {
        model.write_u8(123);
        model.write_all(&v.to_be_bytes());
    }
    assert_same_events(&real, &model);
    kani::cover!(v == 0.5, "f32 path");
    kani::cover!(v == 0.1, "f64 path");
    kani::cover!(v == 9007199254740991.0, "largest safe integer");
    kani::cover!(true, "reach");
}

/// `Any::decode` of the three number encodings against the primitive readers (tag concrete).
macro_rules! r9_number_decode {
    ($name:ident, $tag:expr, $n:expr, |$c:ident| $want:expr) => {
        #[kani::proof]
        #[kani::unwind(13)]
        #[kani::stub(std::hash::RandomState::new, random_state_new)]
        fn $name() {
            let payload: [u8; $n] = kani::any();
            let mut full = [0u8; 12];
            full[0] = $tag;
            let mut i = 0;
            while i < $n {
                full[i + 1] = payload[i];
                i += 1;
            }
            let mut c = Cursor::new(&full[..$n + 1]);
            let real = Any::decode(&mut c);
            let mut $c = Cursor::new(&payload[..]);
            let want: Option<f64> = $want;
            match (&real, want) {
                (Ok(Any::Number(x)), Some(w)) => {
                    assert!(x.to_bits() == w.to_bits() || (x.is_nan() && w.is_nan()));
                    assert!(c.next == $c.next + 1);
                }
                (Err(_), None) => {}
                _ => panic!("Any number decodes differently from the primitive readers"),
            }
            kani::cover!(real.is_ok(), "decoded");
            kani::cover!(true, "reach");
            std::mem::forget(real);
        }
    };
}
r9_number_decode!(r9_any_f32_decode, 124, 4, |m| m.read_f32().ok().map(|v| v as f64));
r9_number_decode!(r9_any_f64_decode, 123, 8, |m| m.read_f64().ok());

// ---------------------------------------------------------------------------------------------
// R5 (type refs): every `TypeRef` variant, including weak links (yrs extension: a flags byte and
// two sticky-index scopes), through `ItemContent::Type` + `Item::encode` vs the format.
// ---------------------------------------------------------------------------------------------
use yrs::types::weak::LinkSource;
use yrs::types::TypeRef;

macro_rules! r5_type_ref {
    ($name:ident, $tr:expr, $kind:expr) => {
        #[kani::proof]
        #[kani::unwind(14)]
        #[kani::stub(std::hash::RandomState::new, random_state_new)]
        #[kani::stub(std::intrinsics::catch_unwind, catch_unwind_stub)]
        fn $name() {
            let shape = SHAPES[3];
            let ids = any_ids(1);
            let whole = build_item_k(shape, &ids, ItemContent::Type(yrs::branch::Branch::new($tr)));
            let mut real = Recorder::new();
            whole.encode(&mut real);
            let mut model = Recorder::new();
            model_encode_slice(&mut model, shape, &ids, 7, &ContentModel::Type($kind, None), 0, 0);
            assert_same_events(&real, &model);
            kani::cover!(true, "reach");
            std::mem::forget(whole);
        }
    };
}
r5_type_ref!(r5_type_map, TypeRef::Map, 1);
r5_type_ref!(r5_type_text, TypeRef::Text, 2);
r5_type_ref!(r5_type_xml_fragment, TypeRef::XmlFragment, 4);
r5_type_ref!(r5_type_xml_hook, TypeRef::XmlHook, 5);
r5_type_ref!(r5_type_xml_text, TypeRef::XmlText, 6);
r5_type_ref!(r5_type_subdoc, TypeRef::SubDoc, 9);
r5_type_ref!(r5_type_undefined, TypeRef::Undefined, 15);

/// Weak-link type refs: scope kinds concrete per instance (0 relative, 1 nested, 2 root), ids
/// and associations symbolic. `same` = the end is the same relative id as the start (a link to a
/// single element).
fn r5_weak(start_kind: u8, end_kind: u8, same: bool) {
    let a = any_id();
    let b = if same { a } else { any_id() };
    if !same {
        kani::assume(a != b);
    }
    let sa: bool = kani::any();
    let ea: bool = kani::any();
    let mk = |kind: u8, id: ID| match kind {
        0 => IndexScope::Relative(id),
        1 => IndexScope::Nested(id),
        _ => IndexScope::Root(Arc::from("r")),
    };
    let start = StickyIndex::new(mk(start_kind, a), if sa { Assoc::After } else { Assoc::Before });
    let end = StickyIndex::new(mk(end_kind, b), if ea { Assoc::After } else { Assoc::Before });
    let tr = TypeRef::WeakLink(Arc::new(LinkSource::new(start, end)));
    let mut real: RecorderN<48> = RecorderN::new();
    tr.encode(&mut real);
    let mut model: RecorderN<48> = RecorderN::new();
    let single = start_kind == 0 && end_kind == 0 && same;
    let mut info = 0u8;
    if !single {
        info |= 0b0000_0001; // quote of several elements
    }
    if start_kind == 2 || end_kind == 2 {
        info |= 0b0010_0000; // parent is a root type
    }
    if start_kind != 0 {
        info |= 0b0000_1000; // start unbounded
    }
    if end_kind != 0 {
        info |= 0b0001_0000; // end unbounded
    }
    if sa {
        info |= 0b0000_0010;
    }
    if ea {
        info |= 0b0000_0100;
    }
    model.write_type_ref(7);
    model.write_u8(info);
    if start_kind == 2 {
        model.write_string("r");
    } else {
        model.write_var(a.client.get());
        model.write_var(a.clock);
    }
    if end_kind == 2 {
        model.write_string("r");
    } else if !single {
        model.write_var(b.client.get());
        model.write_var(b.clock);
    }
    assert_same_events(&real, &model);
    kani::cover!(sa && !ea, "mixed associations");
    kani::cover!(true, "reach");
    std::mem::forget(tr);
}
macro_rules! r5_weak_inst {
    ($name:ident, $s:expr, $e:expr, $same:expr) => {
        #[kani::proof]
        #[kani::unwind(50)]
        fn $name() {
            r5_weak($s, $e, $same)
        }
    };
}
r5_weak_inst!(r5_weak_single, 0, 0, true);
r5_weak_inst!(r5_weak_rel_rel, 0, 0, false);
r5_weak_inst!(r5_weak_nested_rel, 1, 0, false);
r5_weak_inst!(r5_weak_rel_nested, 0, 1, false);
r5_weak_inst!(r5_weak_root_root, 2, 2, false);
r5_weak_inst!(r5_weak_nested_nested, 1, 1, false);

// ---------------------------------------------------------------------------------------------
// R5 (GC and Skip blocks): `Block::encode`, `Block::encode_with_offset` and `BlockSlice::encode`
// make the calls `Update::decode_block` reads back: info byte, then the length through
// `write_len` for GC (read with `read_len`) and through `write_var` for Skip (read with
// `read_var`) — the two differ in v2 (len column vs. rest buffer).
// ---------------------------------------------------------------------------------------------
#[kani::proof]
#[kani::unwind(14)]
#[kani::stub(std::hash::RandomState::new, random_state_new)]
#[kani::stub(std::intrinsics::catch_unwind, catch_unwind_stub)]
fn r5_gc_skip_encode() {
    let id = any_id();
    let len: u32 = kani::any();
    let offset: u32 = kani::any();
    let trim_end: u32 = kani::any();
    kani::assume(len >= 1 && offset < len && trim_end <= len - offset && id.clock <= u32::MAX - len);
    let skip: bool = kani::any();
    let b = if skip { hook::BlockBox::skip(id, len) } else { hook::BlockBox::gc(id, len) };
    let info: u8 = if skip { 10 } else { 0 };
    // <Block as Encode>::encode
    let mut real = Recorder::new();
    b.encode(&mut real);
    let mut model = Recorder::new();
    model.write_info(info);
    if skip { model.write_var(len) } else { model.write_len(len) }
    assert_same_events(&real, &model);
    // Block::encode_with_offset
    let mut real = Recorder::new();
    b.encode_with_offset(&mut real, offset);
    let mut model = Recorder::new();
    model.write_info(info);
    if skip { model.write_var(len - offset) } else { model.write_len(len - offset) }
    assert_same_events(&real, &model);
    // Block::as_slice + trim + BlockSlice::encode
    let mut real = Recorder::new();
    b.encode_slice(offset, trim_end, &mut real);
    let mut model = Recorder::new();
    model.write_info(info);
    if skip { model.write_var(len - offset - trim_end) } else { model.write_len(len - offset - trim_end) }
    assert_same_events(&real, &model);
    kani::cover!(skip && offset > 0, "skip with offset");
    kani::cover!(!skip && trim_end > 0, "gc trimmed at the end");
    kani::cover!(true, "reach");
    std::mem::forget(b);
}
