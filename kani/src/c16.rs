//! C16 — id sets and id maps implement exact set algebra (DESIGN.md 4.4).
//!
//! Inductive formulation: the pre-state is an *arbitrary canonical* `IdRanges` with a concrete
//! number of entries and fully symbolic `u32` bounds; one real operation with symbolic arguments
//! runs; afterwards the result must be canonical and, for a symbolic witness clock `k` (quantified
//! by the solver over the whole `u32` range), membership must equal the set formula.
use crate::util::*;
use hook::{IdRanges, Merge};
use smallvec::SmallVec;
use std::ops::Range;

type Unit = IdRanges<()>;
/// Spare capacity of a pre-state (an operation adds at most 2 entries per existing entry + 1).
const SPARE: usize = 3;

/// Model of one entry list: `P` pairs of bounds.
#[derive(Clone, Copy)]
pub struct Bounds<const P: usize>(pub [(u32, u32); P]);

impl<const P: usize> Bounds<P> {
    /// Arbitrary canonical (sorted, non-empty, non-touching) bounds.
    pub fn any_canonical() -> Self {
        let mut b = [(0u32, 0u32); P];
        let mut i = 0;
        while i < P {
            let s: u32 = kani::any();
            let e: u32 = kani::any();
            kani::assume(s < e);
            if i > 0 {
                kani::assume(b[i - 1].1 < s);
            }
            b[i] = (s, e);
            i += 1;
        }
        Bounds(b)
    }

    pub fn contains(&self, k: u32) -> bool {
        let mut i = 0;
        let mut found = false;
        while i < P {
            if self.0[i].0 <= k && k < self.0[i].1 {
                found = true;
            }
            i += 1;
        }
        found
    }

    /// The list is heap-backed with spare capacity, so the operation under test never has to
    /// grow it: SmallVec's re-allocation (`try_grow`) sends CBMC's array theory into a blow-up
    /// (DESIGN 2.4) and is smallvec's code, not part of the claim.
    pub fn build(&self) -> Unit {
        let mut v: Vec<(Range<u32>, ())> = Vec::with_capacity(P + SPARE);
        let mut i = 0;
        while i < P {
            v.push((self.0[i].0..self.0[i].1, ()));
            i += 1;
        }
        hook::id_ranges_from_raw(SmallVec::from_vec(v))
    }
}

/// Canonical form of a result: sorted, every entry non-empty, neighbours neither overlap nor touch.
fn canonical_unit(r: &Unit, max_len: usize) -> bool {
    let s = r.as_slice();
    if s.len() > max_len {
        return false;
    }
    let mut i = 0;
    let mut ok = true;
    while i < max_len {
        if i < s.len() {
            if s[i].0.start >= s[i].0.end {
                ok = false;
            }
            if i > 0 && s[i - 1].0.end >= s[i].0.start {
                ok = false;
            }
        }
        i += 1;
    }
    ok
}

/// Membership by linear scan over the result's entries (does not trust `contains_clock`).
fn member_unit(r: &Unit, k: u32, max_len: usize) -> bool {
    let s = r.as_slice();
    let mut i = 0;
    let mut found = false;
    while i < max_len {
        if i < s.len() && s[i].0.start <= k && k < s[i].0.end {
            found = true;
        }
        i += 1;
    }
    found
}

// ---------------------------------------------------------------------------------------------
// A1: IdRanges<()>
// ---------------------------------------------------------------------------------------------
macro_rules! a1_insert {
    ($name:ident, $p:expr, $unwind:expr) => {
        #[kani::proof]
        #[kani::unwind($unwind)]
        #[kani::stub(smallvec::SmallVec::new, smallvec_new_spare)]
        #[kani::stub(smallvec::SmallVec::with_capacity, smallvec_with_capacity_spare)]
        #[kani::stub(smallvec::SmallVec::push, smallvec_push_nogrow)]
        #[kani::stub(smallvec::SmallVec::insert, smallvec_insert_nogrow)]
        #[kani::stub(smallvec::SmallVec::remove, smallvec_remove_shift)]
        #[kani::stub(smallvec::SmallVec::reserve, smallvec_reserve_nogrow)]
        fn $name() {
            let pre = Bounds::<$p>::any_canonical();
            let mut r = pre.build();
            let s: u32 = kani::any();
            let e: u32 = kani::any();
            r.insert(s..e);
            let k: u32 = kani::any();
            let expect = pre.contains(k) || (s <= k && k < e);
            assert!(canonical_unit(&r, $p + 1));
            assert!(member_unit(&r, k, $p + 1) == expect);
            assert!(r.contains_clock(k) == expect);
            kani::cover!(r.len() == 1 && $p > 0 && s < e, "insert coalesced everything into one entry");
            kani::cover!(r.len() == $p + 1, "insert added a separate entry");
            kani::cover!(true, "reach");
            std::mem::forget(r);
        }
    };
}
a1_insert!(a1_insert_p0, 0, 4);
a1_insert!(a1_insert_p1, 1, 5);
a1_insert!(a1_insert_p2, 2, 6);
a1_insert!(a1_insert_p3, 3, 7);

macro_rules! a1_remove {
    ($name:ident, $p:expr, $unwind:expr) => {
        #[kani::proof]
        #[kani::unwind($unwind)]
        #[kani::stub(smallvec::SmallVec::new, smallvec_new_spare)]
        #[kani::stub(smallvec::SmallVec::with_capacity, smallvec_with_capacity_spare)]
        #[kani::stub(smallvec::SmallVec::push, smallvec_push_nogrow)]
        #[kani::stub(smallvec::SmallVec::insert, smallvec_insert_nogrow)]
        #[kani::stub(smallvec::SmallVec::remove, smallvec_remove_shift)]
        #[kani::stub(smallvec::SmallVec::reserve, smallvec_reserve_nogrow)]
        fn $name() {
            let pre = Bounds::<$p>::any_canonical();
            let mut r = pre.build();
            let s: u32 = kani::any();
            let e: u32 = kani::any();
            r.remove(s..e);
            let k: u32 = kani::any();
            let expect = pre.contains(k) && !(s <= k && k < e);
            assert!(canonical_unit(&r, $p + 1));
            assert!(member_unit(&r, k, $p + 1) == expect);
            assert!(r.contains_clock(k) == expect);
            kani::cover!(r.len() == $p + 1, "remove split one entry in two");
            kani::cover!(r.len() == 0 && $p > 0, "remove emptied the set");
            kani::cover!(true, "reach");
            std::mem::forget(r);
        }
    };
}
a1_remove!(a1_remove_p1, 1, 5);
a1_remove!(a1_remove_p2, 2, 6);
a1_remove!(a1_remove_p3, 3, 7);

macro_rules! a1_binary {
    ($name:ident, $op:ident, $p:expr, $q:expr, $unwind:expr, |$a:ident, $b:ident| $formula:expr) => {
        #[kani::proof]
        #[kani::unwind($unwind)]
        #[kani::stub(smallvec::SmallVec::new, smallvec_new_spare)]
        #[kani::stub(smallvec::SmallVec::with_capacity, smallvec_with_capacity_spare)]
        #[kani::stub(smallvec::SmallVec::push, smallvec_push_nogrow)]
        #[kani::stub(smallvec::SmallVec::insert, smallvec_insert_nogrow)]
        #[kani::stub(smallvec::SmallVec::remove, smallvec_remove_shift)]
        #[kani::stub(smallvec::SmallVec::reserve, smallvec_reserve_nogrow)]
        fn $name() {
            let pa = Bounds::<$p>::any_canonical();
            let pb = Bounds::<$q>::any_canonical();
            let mut r = pa.build();
            let other = pb.build();
            r.$op(&other);
            let k: u32 = kani::any();
            let $a = pa.contains(k);
            let $b = pb.contains(k);
            let expect: bool = $formula;
            assert!(canonical_unit(&r, $p + $q + 1));
            assert!(member_unit(&r, k, $p + $q + 1) == expect);
            assert!(r.contains_clock(k) == expect);
            // the argument is not modified
            assert!(member_unit(&other, k, $q) == $b);
            kani::cover!(r.len() == $p + $q && $p + $q > 1, "result has p+q entries");
            kani::cover!(r.len() == 1, "result has one entry");
            kani::cover!(true, "reach");
            std::mem::forget(r);
            std::mem::forget(other);
        }
    };
}
a1_binary!(a1_merge_p1_q1, merge, 1, 1, 6, |a, b| a || b);
a1_binary!(a1_merge_p2_q1, merge, 2, 1, 7, |a, b| a || b);
a1_binary!(a1_merge_p1_q2, merge, 1, 2, 7, |a, b| a || b);
a1_binary!(a1_merge_p2_q2, merge, 2, 2, 8, |a, b| a || b);
a1_binary!(a1_exclude_p1_q1, exclude, 1, 1, 6, |a, b| a && !b);
a1_binary!(a1_exclude_p2_q1, exclude, 2, 1, 7, |a, b| a && !b);
a1_binary!(a1_exclude_p1_q2, exclude, 1, 2, 7, |a, b| a && !b);
a1_binary!(a1_exclude_p2_q2, exclude, 2, 2, 8, |a, b| a && !b);
a1_binary!(a1_intersect_p1_q1, intersect, 1, 1, 6, |a, b| a && b);
a1_binary!(a1_intersect_p2_q1, intersect, 2, 1, 7, |a, b| a && b);
a1_binary!(a1_intersect_p1_q2, intersect, 1, 2, 7, |a, b| a && b);
a1_binary!(a1_intersect_p2_q2, intersect, 2, 2, 8, |a, b| a && b);

/// Read-only queries against the model: `subset_of`, `contains_clock`, `find_start`,
/// `clock_start`, `clock_end`, `len`, `is_empty`.
macro_rules! a1_queries {
    ($name:ident, $p:expr, $q:expr, $unwind:expr) => {
        #[kani::proof]
        #[kani::unwind($unwind)]
        #[kani::stub(smallvec::SmallVec::new, smallvec_new_spare)]
        #[kani::stub(smallvec::SmallVec::with_capacity, smallvec_with_capacity_spare)]
        #[kani::stub(smallvec::SmallVec::push, smallvec_push_nogrow)]
        #[kani::stub(smallvec::SmallVec::insert, smallvec_insert_nogrow)]
        #[kani::stub(smallvec::SmallVec::remove, smallvec_remove_shift)]
        #[kani::stub(smallvec::SmallVec::reserve, smallvec_reserve_nogrow)]
        fn $name() {
            let pa = Bounds::<$p>::any_canonical();
            let pb = Bounds::<$q>::any_canonical();
            let a = pa.build();
            let b = pb.build();
            let k: u32 = kani::any();
            // subset_of: if it answers true, every point of a is in b; if false, some point of a
            // is not in b (the witness is existential: check it on the entry boundaries of a)
            let sub = a.subset_of(&b);
            if sub {
                assert!(!pa.contains(k) || pb.contains(k));
            } else {
                // a is not a subset: there is an entry of a with a point outside b. For canonical
                // sets it suffices that b does not cover some entry of a completely; a covered
                // entry lies inside one entry of b.
                let mut i = 0;
                let mut all_covered = true;
                while i < $p {
                    let (s, e) = pa.0[i];
                    let mut j = 0;
                    let mut covered = false;
                    while j < $q {
                        if pb.0[j].0 <= s && e <= pb.0[j].1 {
                            covered = true;
                        }
                        j += 1;
                    }
                    all_covered = all_covered && covered;
                    i += 1;
                }
                assert!(!all_covered);
            }
            assert!(a.contains_clock(k) == pa.contains(k));
            assert!(a.len() == $p && a.is_empty() == ($p == 0));
            if $p > 0 {
                assert!(a.clock_start() == Some(pa.0[0].0));
                assert!(a.clock_end() == Some(pa.0[$p - 1].1));
                match a.find_start(k) {
                    Some(i) => {
                        assert!(i < $p);
                        // first entry containing k or starting after k
                        assert!(k < pa.0[i].1);
                        assert!(i == 0 || pa.0[i - 1].1 <= k);
                    }
                    None => assert!(pa.0[$p - 1].1 <= k),
                }
            } else {
                assert!(a.clock_start().is_none() && a.find_start(k).is_none());
            }
            kani::cover!(sub && $p > 0, "subset");
            kani::cover!(!sub, "not a subset");
            kani::cover!(true, "reach");
            std::mem::forget(a);
            std::mem::forget(b);
        }
    };
}
a1_queries!(a1_queries_p1_q1, 1, 1, 5);
a1_queries!(a1_queries_p2_q2, 2, 2, 6);
a1_queries!(a1_queries_p3_q2, 3, 2, 7);

// ---------------------------------------------------------------------------------------------
// A2: IdRanges<M> with a value per range; M = 3-bit mask, Merge = bit-or
// ---------------------------------------------------------------------------------------------
#[derive(Clone, Copy, PartialEq, Eq, Debug)]
pub struct Mask(pub u8);
impl Merge for Mask {
    fn merge(&mut self, other: &Self) {
        self.0 |= other.0;
    }
}
type Valued = IdRanges<Mask>;

#[derive(Clone, Copy)]
pub struct VBounds<const P: usize>(pub [(u32, u32, u8); P]);

impl<const P: usize> VBounds<P> {
    /// Arbitrary canonical valued list: sorted, non-empty, non-overlapping; touching neighbours
    /// carry different values.
    pub fn any_canonical() -> Self {
        let mut b = [(0u32, 0u32, 0u8); P];
        let mut i = 0;
        while i < P {
            let s: u32 = kani::any();
            let e: u32 = kani::any();
            let v: u8 = kani::any();
            kani::assume(s < e && v < 8);
            if i > 0 {
                kani::assume(b[i - 1].1 <= s);
                kani::assume(b[i - 1].1 < s || b[i - 1].2 != v);
            }
            b[i] = (s, e, v);
            i += 1;
        }
        VBounds(b)
    }
    /// `Some(value)` if `k` is covered.
    pub fn at(&self, k: u32) -> Option<u8> {
        let mut i = 0;
        let mut res = None;
        while i < P {
            if self.0[i].0 <= k && k < self.0[i].1 {
                res = Some(self.0[i].2);
            }
            i += 1;
        }
        res
    }
    pub fn build(&self) -> Valued {
        let mut v: Vec<(Range<u32>, Mask)> = Vec::with_capacity(P + SPARE + 2);
        let mut i = 0;
        while i < P {
            v.push((self.0[i].0..self.0[i].1, Mask(self.0[i].2)));
            i += 1;
        }
        hook::id_ranges_from_raw(SmallVec::from_vec(v))
    }
}

fn canonical_valued(r: &Valued, max_len: usize) -> bool {
    let s = r.as_slice();
    if s.len() > max_len {
        return false;
    }
    let mut i = 0;
    let mut ok = true;
    while i < max_len {
        if i < s.len() {
            if s[i].0.start >= s[i].0.end {
                ok = false;
            }
            if i > 0 {
                if s[i - 1].0.end > s[i].0.start {
                    ok = false;
                }
                if s[i - 1].0.end == s[i].0.start && s[i - 1].1 == s[i].1 {
                    ok = false; // adjacent ranges with equal values must be coalesced
                }
            }
        }
        i += 1;
    }
    ok
}

fn at_valued(r: &Valued, k: u32, max_len: usize) -> Option<u8> {
    let s = r.as_slice();
    let mut i = 0;
    let mut res = None;
    while i < max_len {
        if i < s.len() && s[i].0.start <= k && k < s[i].0.end {
            res = Some(s[i].1 .0);
        }
        i += 1;
    }
    res
}

fn or_opt(a: Option<u8>, b: Option<u8>) -> Option<u8> {
    match (a, b) {
        (Some(x), Some(y)) => Some(x | y),
        (Some(x), None) | (None, Some(x)) => Some(x),
        (None, None) => None,
    }
}

macro_rules! a2_insert_with {
    ($name:ident, $p:expr, $unwind:expr) => {
        #[kani::proof]
        #[kani::unwind($unwind)]
        #[kani::stub(smallvec::SmallVec::new, smallvec_new_spare6)]
        #[kani::stub(smallvec::SmallVec::with_capacity, smallvec_with_capacity_spare6)]
        #[kani::stub(smallvec::SmallVec::push, smallvec_push_nogrow)]
        #[kani::stub(smallvec::SmallVec::insert, smallvec_insert_nogrow)]
        #[kani::stub(smallvec::SmallVec::remove, smallvec_remove_shift)]
        #[kani::stub(smallvec::SmallVec::reserve, smallvec_reserve_nogrow)]
        fn $name() {
            let pre = VBounds::<$p>::any_canonical();
            let mut r = pre.build();
            let s: u32 = kani::any();
            let e: u32 = kani::any();
            let v: u8 = kani::any();
            kani::assume(v < 8);
            r.insert_with(s..e, Mask(v));
            let k: u32 = kani::any();
            let new = if s <= k && k < e { Some(v) } else { None };
            let expect = or_opt(pre.at(k), new);
            assert!(canonical_valued(&r, 2 * $p + 1));
            assert!(at_valued(&r, k, 2 * $p + 1) == expect);
            kani::cover!(r.len() == 2 * $p + 1 && $p > 0, "insert split existing entries");
            kani::cover!(true, "reach");
            std::mem::forget(r);
        }
    };
}
a2_insert_with!(a2_insert_with_p0, 0, 4);
a2_insert_with!(a2_insert_with_p1, 1, 6);
a2_insert_with!(a2_insert_with_p2, 2, 8);

macro_rules! a2_remove {
    ($name:ident, $p:expr, $unwind:expr) => {
        #[kani::proof]
        #[kani::unwind($unwind)]
        #[kani::stub(smallvec::SmallVec::new, smallvec_new_spare6)]
        #[kani::stub(smallvec::SmallVec::with_capacity, smallvec_with_capacity_spare6)]
        #[kani::stub(smallvec::SmallVec::push, smallvec_push_nogrow)]
        #[kani::stub(smallvec::SmallVec::insert, smallvec_insert_nogrow)]
        #[kani::stub(smallvec::SmallVec::remove, smallvec_remove_shift)]
        #[kani::stub(smallvec::SmallVec::reserve, smallvec_reserve_nogrow)]
        fn $name() {
            let pre = VBounds::<$p>::any_canonical();
            let mut r = pre.build();
            let s: u32 = kani::any();
            let e: u32 = kani::any();
            r.remove(s..e);
            let k: u32 = kani::any();
            let expect = if s <= k && k < e { None } else { pre.at(k) };
            assert!(canonical_valued(&r, $p + 1));
            assert!(at_valued(&r, k, $p + 1) == expect);
            kani::cover!(r.len() == $p + 1, "remove split one entry in two");
            kani::cover!(true, "reach");
            std::mem::forget(r);
        }
    };
}
a2_remove!(a2_remove_p1, 1, 5);
a2_remove!(a2_remove_p2, 2, 6);

macro_rules! a2_binary {
    ($name:ident, $op:ident, $p:expr, $q:expr, $max:expr, $unwind:expr, |$a:ident, $b:ident| $formula:expr) => {
        #[kani::proof]
        #[kani::unwind($unwind)]
        #[kani::stub(smallvec::SmallVec::new, smallvec_new_spare6)]
        #[kani::stub(smallvec::SmallVec::with_capacity, smallvec_with_capacity_spare6)]
        #[kani::stub(smallvec::SmallVec::push, smallvec_push_nogrow)]
        #[kani::stub(smallvec::SmallVec::insert, smallvec_insert_nogrow)]
        #[kani::stub(smallvec::SmallVec::remove, smallvec_remove_shift)]
        #[kani::stub(smallvec::SmallVec::reserve, smallvec_reserve_nogrow)]
        fn $name() {
            let pa = VBounds::<$p>::any_canonical();
            let pb = VBounds::<$q>::any_canonical();
            let mut r = pa.build();
            let other = pb.build();
            r.$op(&other);
            let k: u32 = kani::any();
            let $a = pa.at(k);
            let $b = pb.at(k);
            let expect: Option<u8> = $formula;
            assert!(canonical_valued(&r, $max));
            assert!(at_valued(&r, k, $max) == expect);
            kani::cover!(r.len() >= 2, "result has several entries");
            kani::cover!(true, "reach");
            std::mem::forget(r);
            std::mem::forget(other);
        }
    };
}
a2_binary!(a2_merge_p1_q1, merge, 1, 1, 3, 6, |a, b| or_opt(a, b));
a2_binary!(a2_merge_p2_q1, merge, 2, 1, 5, 8, |a, b| or_opt(a, b));
a2_binary!(a2_exclude_p1_q1, exclude, 1, 1, 2, 6, |a, b| if b.is_some() { None } else { a });
a2_binary!(a2_exclude_p2_q1, exclude, 2, 1, 3, 7, |a, b| if b.is_some() { None } else { a });
a2_binary!(a2_intersect_p1_q1, intersect, 1, 1, 1, 6, |a, b| match (a, b) {
    (Some(x), Some(y)) => Some(x | y),
    _ => None,
});
a2_binary!(a2_intersect_p2_q1, intersect, 2, 1, 2, 7, |a, b| match (a, b) {
    (Some(x), Some(y)) => Some(x | y),
    _ => None,
});
a2_binary!(a2_intersect_p1_q2, intersect, 1, 2, 2, 7, |a, b| match (a, b) {
    (Some(x), Some(y)) => Some(x | y),
    _ => None,
});

// ---------------------------------------------------------------------------------------------
// A3: IdSet lifting over clients (BTreeMap). Two concrete client ids, symbolic ranges.
// ---------------------------------------------------------------------------------------------
use yrs::block::BlockRange;
use yrs::IdSet;

fn c(n: u64) -> ClientID {
    ClientID::new(n)
}

/// `IdSet::insert(id, len)` then `contains`, `remove_range`, emptiness: one client.
#[kani::proof]
#[kani::unwind(6)]
fn a3_idset_insert_remove() {
    let mut set = IdSet::new();
    let s1: u32 = kani::any();
    let l1: u32 = kani::any();
    let s2: u32 = kani::any();
    let l2: u32 = kani::any();
    // clock + len <= u32::MAX: ranges are positions of existing content (DESIGN 4.4)
    kani::assume(l1 > 0 && l2 > 0 && s1 <= u32::MAX - l1 && s2 <= u32::MAX - l2);
    set.insert(ID::new(c(1), s1), l1);
    set.insert(ID::new(c(1), s2), l2);
    let k: u32 = kani::any();
    let in1 = s1 <= k && k < s1 + l1;
    let in2 = s2 <= k && k < s2 + l2;
    assert!(set.contains(&ID::new(c(1), k)) == (in1 || in2));
    assert!(!set.contains(&ID::new(c(2), k)));
    assert!(!set.is_empty() && set.len() == 1);
    // remove the first range again
    set.remove_range(&BlockRange::new(ID::new(c(1), s1), l1));
    assert!(set.contains(&ID::new(c(1), k)) == (in2 && !in1));
    // removing everything drops the client entry
    set.remove_range(&BlockRange::new(ID::new(c(1), s2), l2));
    assert!(set.is_empty() && set.len() == 0 && set.get(&c(1)).is_none());
    kani::cover!(true, "reach");
    std::mem::forget(set);
}

/// Binary operations lifted per client: clients {1,2} in `a`, {2,3} in `b`, one range each.
macro_rules! a3_binary {
    ($name:ident, |$a:ident, $b:ident| $apply:expr, |$ina:ident, $inb:ident| $formula:expr) => {
        #[kani::proof]
        #[kani::unwind(6)]
        fn $name() {
            let ra: [(u32, u32); 2] = kani::any();
            let rb: [(u32, u32); 2] = kani::any();
            kani::assume(ra[0].0 < ra[0].1 && ra[1].0 < ra[1].1);
            kani::assume(rb[0].0 < rb[0].1 && rb[1].0 < rb[1].1);
            let mut $a = IdSet::new();
            $a.insert_range(c(1), Bounds::<1>([ra[0]]).build());
            $a.insert_range(c(2), Bounds::<1>([ra[1]]).build());
            let mut $b = IdSet::new();
            $b.insert_range(c(2), Bounds::<1>([rb[0]]).build());
            $b.insert_range(c(3), Bounds::<1>([rb[1]]).build());
            let res: IdSet = $apply;
            let k: u32 = kani::any();
            let who: u8 = kani::any();
            kani::assume(who >= 1 && who <= 3);
            let $ina = (who == 1 && ra[0].0 <= k && k < ra[0].1)
                || (who == 2 && ra[1].0 <= k && k < ra[1].1);
            let $inb = (who == 2 && rb[0].0 <= k && k < rb[0].1)
                || (who == 3 && rb[1].0 <= k && k < rb[1].1);
            let expect: bool = $formula;
            assert!(res.contains(&ID::new(c(who as u64), k)) == expect);
            // no empty per-client entry survives
            let mut n = 1u64;
            while n <= 3 {
                if let Some(r) = res.get(&c(n)) {
                    assert!(!r.is_empty());
                    assert!(canonical_unit(r, 3));
                }
                n += 1;
            }
            kani::cover!(res.len() == 3, "three clients in the result");
            kani::cover!(res.len() == 1, "one client in the result");
            kani::cover!(true, "reach");
            std::mem::forget(res);
        }
    };
}
a3_binary!(a3_idset_merge, |a, b| {
    a.merge_with(b);
    a
}, |ina, inb| ina || inb);
a3_binary!(a3_idset_diff, |a, b| {
    a.diff_with(&b);
    std::mem::forget(b);
    a
}, |ina, inb| ina && !inb);
a3_binary!(a3_idset_intersect, |a, b| {
    a.intersect_with(&b);
    std::mem::forget(b);
    a
}, |ina, inb| ina && inb);

/// Equal sets built in different orders compare equal and encode to the same bytes.
#[kani::proof]
#[kani::unwind(8)]
fn a3_idset_order_independent() {
    let r1: (u32, u32) = kani::any();
    let r2: (u32, u32) = kani::any();
    kani::assume(r1.0 < r1.1 && r2.0 < r2.1);
    let mut a = IdSet::new();
    a.insert(ID::new(c(1), r1.0), r1.1 - r1.0);
    a.insert(ID::new(c(1), r2.0), r2.1 - r2.0);
    let mut b = IdSet::new();
    b.insert(ID::new(c(1), r2.0), r2.1 - r2.0);
    b.insert(ID::new(c(1), r1.0), r1.1 - r1.0);
    assert!(a == b);
    kani::cover!(a.get(&c(1)).map(|r| r.len()) == Some(2), "two disjoint ranges");
    kani::cover!(a.get(&c(1)).map(|r| r.len()) == Some(1), "coalesced");
    kani::cover!(true, "reach");
    std::mem::forget(a);
    std::mem::forget(b);
}

