//! C10 — decoders are total on untrusted bytes (DESIGN.md 4.2).
//!
//! Every harness feeds *every* byte string inside its bound to a real decoding entry point and
//! relies on the checks Kani compiles in (panics, arithmetic overflow, slice/index bounds,
//! unwrap on None, unwinding assertions = loop bounds) plus the allocation-limit stubs.
use crate::util::*;

// ---------------------------------------------------------------------------------------------
// T1: lib0 primitives on every byte string of length <= 11
// ---------------------------------------------------------------------------------------------
macro_rules! t1_read_var {
    ($name:ident, $t:ty) => {
        #[kani::proof]
        #[kani::unwind(13)]
        fn $name() {
            let buf: [u8; 11] = kani::any();
            let n = any_len(11);
            let mut c = Cursor::new(&buf[..n]);
            let r = c.read_var::<$t>();
            assert!(c.next <= n);
            kani::cover!(r.is_ok(), "ok");
            kani::cover!(r.is_err(), "err");
            kani::cover!(true, "reach");
        }
    };
}
t1_read_var!(t1_read_var_u8, u8);
t1_read_var!(t1_read_var_u16, u16);
t1_read_var!(t1_read_var_u32, u32);
t1_read_var!(t1_read_var_u64, u64);
t1_read_var!(t1_read_var_usize, usize);
t1_read_var!(t1_read_var_u128, u128);
t1_read_var!(t1_read_var_i8, i8);
t1_read_var!(t1_read_var_i16, i16);
t1_read_var!(t1_read_var_i32, i32);
t1_read_var!(t1_read_var_i64, i64);
t1_read_var!(t1_read_var_isize, isize);

macro_rules! t1_read_var_signed {
    ($name:ident, $t:ty) => {
        #[kani::proof]
        #[kani::unwind(13)]
        fn $name() {
            let buf: [u8; 11] = kani::any();
            let n = any_len(11);
            let mut c = Cursor::new(&buf[..n]);
            let r = c.read_var_signed::<$t>();
            assert!(c.next <= n);
            if let Ok(s) = &r {
                // the sign flag agrees with the value (what the v2 column decoders rely on)
                assert!(!(s.is_negative() && s.value() > 0));
                assert!(!(s.is_positive() && s.value() < 0));
            }
            kani::cover!(r.is_ok(), "ok");
            kani::cover!(r.is_err(), "err");
            kani::cover!(true, "reach");
        }
    };
}
t1_read_var_signed!(t1_read_signed_i64, i64);
t1_read_var_signed!(t1_read_signed_i32, i32);
t1_read_var_signed!(t1_read_signed_isize, isize);
t1_read_var_signed!(t1_read_signed_i16, i16);
t1_read_var_signed!(t1_read_signed_i8, i8);

/// Fixed-width readers, `read_exact`, `read_buf`, `read_string` of `Cursor` on every byte string
/// of length <= 11, two consecutive reads (so the second starts from an arbitrary offset).
#[kani::proof]
#[kani::unwind(13)]
#[kani::stub(std::str::from_utf8, from_utf8_model)]
fn t1_cursor_fixed() {
    let buf: [u8; 11] = kani::any();
    let n = any_len(11);
    let mut c = Cursor::new(&buf[..n]);
    let mut i = 0;
    while i < 2 {
        let which: u8 = kani::any();
        let ok = match which {
            0 => c.read_u8().is_ok(),
            1 => c.read_u16().is_ok(),
            2 => c.read_u32().is_ok(),
            3 => c.read_u32_be().is_ok(),
            4 => c.read_u64().is_ok(),
            5 => c.read_i64().is_ok(),
            6 => c.read_f32().is_ok(),
            7 => c.read_f64().is_ok(),
            8 => {
                // every caller passes a length read from a u32 var-int (read_buf) or a constant
                let len: u32 = kani::any();
                let len = len as usize;
                match c.read_exact(len) {
                    Ok(s) => {
                        assert!(s.len() == len);
                        true
                    }
                    Err(_) => false,
                }
            }
            9 => c.read_buf().is_ok(),
            _ => c.read_string().is_ok(),
        };
        assert!(c.next <= n);
        kani::cover!(ok && i == 1, "second read ok");
        i += 1;
    }
    kani::cover!(true, "reach");
}

// ---------------------------------------------------------------------------------------------
// T2: DecoderV2. (a) `DecoderV2::new` on every byte string <= 12 (column framing);
// (b) per column: a well-framed buffer whose column under test holds an arbitrary byte string of
// symbolic length <= K, all other columns empty, then r reads of that column's kind.
// Column order: 0 key_clock, 1 client, 2 left_clock, 3 right_clock, 4 info, 5 string,
// 6 parent_info, 7 type_ref, 8 len, then the rest buffer.
// ---------------------------------------------------------------------------------------------
#[kani::proof]
#[kani::unwind(14)]
fn t2_v2_new() {
    let buf: [u8; 12] = kani::any();
    let n = any_len(12);
    let r = DecoderV2::new(Cursor::new(&buf[..n]));
    kani::cover!(r.is_ok(), "ok");
    kani::cover!(r.is_err(), "err");
    kani::cover!(true, "reach");
    std::mem::forget(r);
}

pub const V2_BUF: usize = 40;

/// Builds `[0, len(col0), col0.., …, len(col8), col8.., rest..]` with `content` (first `k` bytes)
/// in column `col` (9 = rest buffer); column `aux_col` holds the concrete bytes `aux`; every other
/// column is empty (the string column then carries its empty inner string buffer).
pub fn v2_columns<const K: usize>(
    col: usize,
    content: &[u8; K],
    k: usize,
    aux_col: usize,
    aux: &[u8],
) -> ([u8; V2_BUF], usize) {
    let mut out = [0u8; V2_BUF];
    let mut pos = 1; // feature flag
    let mut c = 0;
    while c < 9 {
        if c == col {
            out[pos] = k as u8;
            pos += 1;
            let mut i = 0;
            while i < K {
                if i < k {
                    out[pos] = content[i];
                    pos += 1;
                }
                i += 1;
            }
        } else if c == aux_col {
            out[pos] = aux.len() as u8;
            pos += 1;
            let mut i = 0;
            while i < aux.len() {
                out[pos] = aux[i];
                pos += 1;
                i += 1;
            }
        } else if c == 5 {
            out[pos] = 1; // string column = [inner string length 0]
            out[pos + 1] = 0;
            pos += 2;
        } else {
            out[pos] = 0;
            pos += 1;
        }
        c += 1;
    }
    if col == 9 {
        let mut i = 0;
        while i < K {
            if i < k {
                out[pos] = content[i];
                pos += 1;
            }
            i += 1;
        }
    }
    (out, pos)
}

macro_rules! t2_col {
    ($name:ident, $col:expr, $kmin:expr, $k:expr, $r:expr, $unwind:expr, $aux_col:expr, $aux:expr, |$d:ident| $read:expr) => {
        #[kani::proof]
        #[kani::unwind($unwind)]
        fn $name() {
            let content: [u8; $k] = kani::any();
            let k = if $kmin == $k { $k } else { any_len($k) };
            kani::assume(k >= $kmin);
            let aux: &[u8] = $aux;
            let (buf, n) = v2_columns::<$k>($col, &content, k, $aux_col, aux);
            match DecoderV2::new(Cursor::new(&buf[..n])) {
                Ok(mut $d) => {
                    let mut i = 0;
                    let mut all_ok = true;
                    while i < $r {
                        let ok = $read;
                        all_ok = all_ok && ok;
                        i += 1;
                    }
                    kani::cover!(all_ok, "all reads ok");
                    kani::cover!(!all_ok, "some read failed");
                    std::mem::forget($d);
                }
                Err(e) => {
                    // only the string column can make a well-framed buffer invalid
                    assert!($col == 5);
                    std::mem::forget(e);
                }
            }
            kani::cover!(true, "reach");
        }
    };
}
const NO_AUX: usize = 99;
// client column for the id readers: value 1 repeated 2+5 times ([0x41, 5] = -1, count 5)
const CLIENT_RUN: &[u8] = &[0x41, 5];
// string column for the key reader: inner buffer "ab", lengths [1, 1]
const STRINGS_AB: &[u8] = &[2, b'a', b'b', 1, 1];
// "full": the column holds exactly 6 arbitrary bytes (room for a value and a 5-byte count);
// "short": 0..=3 arbitrary bytes (every truncation / end-of-column case)
t2_col!(t2_col_client_full, 1, 6, 6, 2, 12, NO_AUX, &[], |d| d.read_client().is_ok());
t2_col!(t2_col_client_short, 1, 0, 3, 3, 12, NO_AUX, &[], |d| d.read_client().is_ok());
// 9-byte columns: room for a value above 53 bits (client id range check)
t2_col!(t2_col_client_full9, 1, 9, 9, 1, 14, NO_AUX, &[], |d| d.read_client().is_ok());
t2_col!(t2_col_left_id_client9, 1, 9, 9, 1, 14, 2, &[2], |d| d.read_left_id().is_ok());
t2_col!(t2_col_left_clock_full, 2, 6, 6, 2, 12, 1, CLIENT_RUN, |d| d.read_left_id().is_ok());
t2_col!(t2_col_left_clock_short, 2, 0, 3, 3, 12, 1, CLIENT_RUN, |d| d.read_left_id().is_ok());
t2_col!(t2_col_right_clock_full, 3, 6, 6, 2, 12, 1, CLIENT_RUN, |d| d.read_right_id().is_ok());
t2_col!(t2_col_right_clock_short, 3, 0, 3, 3, 12, 1, CLIENT_RUN, |d| d.read_right_id().is_ok());
t2_col!(t2_col_info_full, 4, 6, 6, 2, 12, NO_AUX, &[], |d| d.read_info().is_ok());
t2_col!(t2_col_info_short, 4, 0, 3, 3, 12, NO_AUX, &[], |d| d.read_info().is_ok());
t2_col!(t2_col_parent_info_full, 6, 6, 6, 2, 12, NO_AUX, &[], |d| d.read_parent_info().is_ok());
t2_col!(t2_col_parent_info_short, 6, 0, 3, 3, 12, NO_AUX, &[], |d| d.read_parent_info().is_ok());
t2_col!(t2_col_type_ref_full, 7, 6, 6, 2, 12, NO_AUX, &[], |d| d.read_type_ref().is_ok());
t2_col!(t2_col_type_ref_short, 7, 0, 3, 3, 12, NO_AUX, &[], |d| d.read_type_ref().is_ok());
t2_col!(t2_col_len_full, 8, 6, 6, 2, 12, NO_AUX, &[], |d| d.read_len().is_ok());
t2_col!(t2_col_len_short, 8, 0, 3, 3, 12, NO_AUX, &[], |d| d.read_len().is_ok());
t2_col!(t2_col_string_full, 5, 6, 6, 2, 12, NO_AUX, &[], |d| d.read_string().is_ok());
t2_col!(t2_col_string_short, 5, 0, 3, 2, 12, NO_AUX, &[], |d| d.read_string().is_ok());
t2_col!(t2_col_key_clock_full, 0, 6, 6, 2, 12, 5, STRINGS_AB, |d| {
    let r = d.read_key();
    let ok = r.is_ok();
    std::mem::forget(r);
    ok
});
t2_col!(t2_col_key_clock_short, 0, 0, 3, 3, 12, 5, STRINGS_AB, |d| {
    let r = d.read_key();
    let ok = r.is_ok();
    std::mem::forget(r);
    ok
});
t2_col!(t2_col_ds_full, 9, 6, 6, 1, 12, NO_AUX, &[], |d| d.read_ds_clock().is_ok()
    && d.read_ds_len().is_ok());
t2_col!(t2_col_ds_short, 9, 0, 4, 2, 12, NO_AUX, &[], |d| d.read_ds_clock().is_ok()
    && d.read_ds_len().is_ok());
t2_col!(t2_col_range_full, 9, 10, 10, 1, 14, NO_AUX, &[], |d| {
    match <std::ops::Range<u32> as Decode>::decode(&mut d) {
        Ok(r) => {
            assert!(r.start <= r.end);
            true
        }
        Err(_) => false,
    }
});
// thorough: longer columns, more reads
t2_col!(t2_col_client_k8, 1, 0, 8, 4, 14, NO_AUX, &[], |d| d.read_client().is_ok());
t2_col!(t2_col_left_clock_k8, 2, 0, 8, 4, 14, 1, CLIENT_RUN, |d| d.read_left_id().is_ok());
t2_col!(t2_col_info_k8, 4, 0, 8, 4, 14, NO_AUX, &[], |d| d.read_info().is_ok());
t2_col!(t2_col_len_k8, 8, 0, 8, 4, 14, NO_AUX, &[], |d| d.read_len().is_ok());
t2_col!(t2_col_string_k8, 5, 0, 8, 3, 14, NO_AUX, &[], |d| d.read_string().is_ok());
t2_col!(t2_col_ds_k10, 9, 0, 10, 2, 14, NO_AUX, &[], |d| d.read_ds_clock().is_ok()
    && d.read_ds_len().is_ok());

// ---------------------------------------------------------------------------------------------
// T3: delete-set ranges
// ---------------------------------------------------------------------------------------------
#[kani::proof]
#[kani::unwind(8)]
fn t3_range_v1() {
    let buf: [u8; 6] = kani::any();
    let n = any_len(6);
    let mut d = DecoderV1::from(&buf[..n]);
    let r = <std::ops::Range<u32> as Decode>::decode(&mut d);
    if let Ok(r) = &r {
        assert!(r.start <= r.end);
    }
    kani::cover!(r.is_ok(), "ok");
    kani::cover!(true, "reach");
}

/// `IdRange::decode` with a concrete count byte and every payload of every length: the ranges
/// are materialised (count 0, 1, 2).
fn t3_id_range_count<const N: usize>(count: u8) {
    let buf: [u8; N] = kani::any();
    let mut full = [0u8; 16];
    full[0] = count;
    let mut i = 0;
    while i < N {
        full[i + 1] = buf[i];
        i += 1;
    }
    let mut len = 1;
    while len <= N + 1 {
        let mut d = DecoderV1::from(&full[..len]);
        let r = <hook::IdRanges<()> as Decode>::decode(&mut d);
        if let Ok(r) = &r {
            assert!(r.len() == count as usize);
            kani::cover!(len == N + 1, "decoded");
        }
        std::mem::forget(r);
        len += 1;
    }
    kani::cover!(true, "reach");
}

#[kani::proof]
#[kani::unwind(8)]
#[kani::stub(std::vec::Vec::try_reserve, vec_try_reserve)]
fn t3_id_range_v1_c0() {
    t3_id_range_count::<2>(0)
}
#[kani::proof]
#[kani::unwind(8)]
#[kani::stub(std::vec::Vec::try_reserve, vec_try_reserve)]
fn t3_id_range_v1_c1() {
    t3_id_range_count::<2>(1)
}
#[kani::proof]
#[kani::unwind(8)]
#[kani::stub(std::vec::Vec::try_reserve, vec_try_reserve)]
fn t3_id_range_v1_c2() {
    t3_id_range_count::<4>(2)
}

/// `IdRange::decode`: arbitrary count field (every byte string <= 6); the path is cut when the
/// first element is pushed, so what is checked is the reservation made from the count.
#[kani::proof]
#[kani::unwind(8)]
#[kani::stub(smallvec::SmallVec::with_capacity, smallvec_with_capacity)]
#[kani::stub(std::vec::Vec::with_capacity, vec_with_capacity)]
#[kani::stub(std::vec::Vec::try_reserve, vec_try_reserve)]
#[kani::stub(std::vec::Vec::push, vec_push_cut)]
#[kani::stub(smallvec::SmallVec::push, smallvec_push_cut)]
fn t3_id_range_count_v1() {
    let buf: [u8; 6] = kani::any();
    let n = any_len(6);
    let mut d = DecoderV1::from(&buf[..n]);
    set_cap_limit(n);
    let r = <hook::IdRanges<()> as Decode>::decode(&mut d);
    clear_cap_limit();
    kani::cover!(r.is_ok(), "ok (zero ranges)");
    kani::cover!(r.is_err(), "err");
    kani::cover!(true, "reach");
    std::mem::forget(r);
}

/// `IdSet::decode` v1: zero clients / one client with one range (BTreeMap insert of one key).
#[kani::proof]
#[kani::unwind(8)]
#[kani::stub(std::vec::Vec::try_reserve, vec_try_reserve)]
fn t3_id_set_v1() {
    let buf: [u8; 3] = kani::any();
    let client: u8 = kani::any();
    kani::assume(client < 0x80);
    // [clients = 1, client id (one byte), ranges = 1, clock, len, trailing byte]
    let full = [1u8, client, 1, buf[0], buf[1], buf[2]];
    let mut len = 0;
    while len <= 6 {
        let r = yrs::IdSet::decode_v1(&full[..len]);
        kani::cover!(r.is_ok() && len == 5, "ok");
        std::mem::forget(r);
        len += 1;
    }
    let empty = yrs::IdSet::decode_v1(&[0u8]);
    assert!(empty.is_ok());
    std::mem::forget(empty);
    kani::cover!(true, "reach");
}

// ---------------------------------------------------------------------------------------------
// T4: one block of an update (`Update::decode_block` -> `ItemContent::decode`), v1
// The info byte (content kind + origin flags) is concrete per instance; everything after it is
// an arbitrary byte string.
// ---------------------------------------------------------------------------------------------
fn t4_block_v1<const N: usize>(info: u8) {
    let buf: [u8; N] = kani::any();
    let mut full = [0u8; 16];
    full[0] = info;
    let mut i = 0;
    while i < N {
        full[i + 1] = buf[i];
        i += 1;
    }
    let id = any_id();
    // concrete length (a symbolic slice length makes the info byte read non-constant) and
    // in-bounds reader stubs: the block is cut where the buffer ends instead of merging an
    // Ok/Err result, which would make the content discriminant symbolic (DESIGN 2.4)
    let mut d = DecoderV1::from(&full[..N + 1]);
    set_cap_limit(N + 1);
    let r = hook::decode_block(id, &mut d);
    clear_cap_limit();
    match r {
        Ok(Some(b)) => {
            kani::cover!(true, "decoded");
            std::mem::forget(b);
        }
        Ok(None) => {
            kani::cover!(true, "empty block dropped");
        }
        Err(e) => std::mem::forget(e),
    }
    kani::cover!(true, "reach");
}

macro_rules! t4_v1 {
    ($name:ident, $info:expr, $n:expr, $unwind:expr) => {
        #[kani::proof]
        #[kani::unwind($unwind)]
        #[kani::stub(std::hash::RandomState::new, random_state_new)]
        #[kani::stub(std::intrinsics::catch_unwind, catch_unwind_stub)]
        #[kani::stub(yrs::Any::from_json, any_from_json)]
        #[kani::stub(std::str::from_utf8, from_utf8_model)]
        #[kani::stub(std::vec::Vec::try_reserve, vec_try_reserve)]
        #[kani::stub(std::vec::Vec::with_capacity, vec_with_capacity)]
        #[kani::stub(std::collections::HashMap::with_capacity, hashmap_with_capacity)]
        #[kani::stub(std::collections::HashMap::try_reserve, hashmap_try_reserve)]
        #[kani::stub(std::collections::HashMap::insert, hashmap_insert_cut)]
        #[kani::stub(<yrs::encoding::read::Cursor as yrs::encoding::read::Read>::read_u8, cursor_read_u8_inb)]
        #[kani::stub(<yrs::encoding::read::Cursor as yrs::encoding::read::Read>::read_exact, cursor_read_exact_inb)]
        fn $name() {
            t4_block_v1::<$n>($info)
        }
    };
}
// ref numbers: 0 GC, 1 Deleted, 2 JSON, 3 Binary, 4 String, 5 Embed, 6 Format, 7 Type, 8 Any,
// 10 Skip; flags 0x80 origin, 0x40 right origin, 0x20 parent sub
t4_v1!(t4_v1_gc, 0, 5, 8);
t4_v1!(t4_v1_skip, 10, 5, 8);
t4_v1!(t4_v1_deleted, 1, 6, 9);
t4_v1!(t4_v1_deleted_o, 0x80 | 1, 6, 9);
t4_v1!(t4_v1_deleted_r, 0x40 | 1, 6, 9);
t4_v1!(t4_v1_deleted_or, 0xC0 | 1, 7, 10);
t4_v1!(t4_v1_deleted_sub, 0x20 | 1, 7, 10);
t4_v1!(t4_v1_deleted_o_sub, 0xA0 | 1, 6, 9);
t4_v1!(t4_v1_binary, 0x80 | 3, 6, 9);
t4_v1!(t4_v1_unknown_11, 0x80 | 11, 4, 8);
t4_v1!(t4_v1_unknown_15, 0x80 | 15, 4, 8);

/// `ItemContent::decode` per content kind on every byte string of every length <= N (the real
/// readers, end-of-buffer errors included). The result is not turned into an `Item` here: the
/// block framing around it is `t4_v1_*` above.
fn t4_content_v1<const N: usize>(ref_num: u8) {
    let buf: [u8; N] = kani::any();
    let mut len = 0;
    while len <= N {
        let mut d = DecoderV1::from(&buf[..len]);
        set_cap_limit(len);
        let r = ItemContent::decode(&mut d, ref_num);
        clear_cap_limit();
        kani::cover!(r.is_ok(), "decoded");
        kani::cover!(r.is_err(), "err");
        std::mem::forget(r);
        len += 1;
    }
    kani::cover!(true, "reach");
}

macro_rules! t4_content {
    ($name:ident, $ref:expr, $n:expr, $unwind:expr) => {
        #[kani::proof]
        #[kani::unwind($unwind)]
        #[kani::stub(std::hash::RandomState::new, random_state_new)]
        #[kani::stub(std::intrinsics::catch_unwind, catch_unwind_stub)]
        #[kani::stub(yrs::Any::from_json, any_from_json)]
        #[kani::stub(std::str::from_utf8, from_utf8_model)]
        #[kani::stub(std::vec::Vec::try_reserve, vec_try_reserve)]
        #[kani::stub(std::vec::Vec::with_capacity, vec_with_capacity)]
        #[kani::stub(std::collections::HashMap::with_capacity, hashmap_with_capacity)]
        #[kani::stub(std::collections::HashMap::try_reserve, hashmap_try_reserve)]
        #[kani::stub(std::collections::HashMap::insert, hashmap_insert_cut)]
        fn $name() {
            t4_content_v1::<$n>($ref)
        }
    };
}
t4_content!(t4_content_deleted, 1, 6, 9);
t4_content!(t4_content_binary, 3, 5, 9);
t4_content!(t4_content_string, 4, 4, 9);
t4_content!(t4_content_embed, 5, 3, 9);
t4_content!(t4_content_format, 6, 4, 9);
t4_content!(t4_content_unknown, 12, 2, 9);

/// Content whose first byte (element count / type ref) is concrete per instance.
fn t4_content_v1_first<const N: usize>(ref_num: u8, first: u8) {
    let buf: [u8; N] = kani::any();
    let mut full = [0u8; 16];
    full[0] = first;
    let mut i = 0;
    while i < N {
        full[i + 1] = buf[i];
        i += 1;
    }
    let mut len = 1;
    while len <= N + 1 {
        let mut d = DecoderV1::from(&full[..len]);
        set_cap_limit(len);
        let r = ItemContent::decode(&mut d, ref_num);
        clear_cap_limit();
        kani::cover!(r.is_ok(), "decoded");
        std::mem::forget(r);
        len += 1;
    }
    kani::cover!(true, "reach");
}
macro_rules! t4_content_first {
    ($name:ident, $ref:expr, $first:expr, $n:expr, $unwind:expr) => {
        #[kani::proof]
        #[kani::unwind($unwind)]
        #[kani::stub(std::hash::RandomState::new, random_state_new)]
        #[kani::stub(std::intrinsics::catch_unwind, catch_unwind_stub)]
        #[kani::stub(std::str::from_utf8, from_utf8_model)]
        #[kani::stub(std::vec::Vec::try_reserve, vec_try_reserve)]
        #[kani::stub(yrs::Doc::with_options, doc_with_options_cut)]
        fn $name() {
            t4_content_v1_first::<$n>($ref, $first)
        }
    };
}
t4_content_first!(t4_content_json_0, 2, 0, 1, 9);
t4_content_first!(t4_content_json_1, 2, 1, 3, 9);
t4_content_first!(t4_content_json_2, 2, 2, 4, 9);
t4_content_first!(t4_content_type_array, 7, 0, 1, 9);
t4_content_first!(t4_content_type_map, 7, 1, 1, 9);
t4_content_first!(t4_content_type_text, 7, 2, 1, 9);
t4_content_first!(t4_content_type_xml_element, 7, 3, 3, 9);
t4_content_first!(t4_content_type_xml_fragment, 7, 4, 1, 9);
t4_content_first!(t4_content_type_xml_hook, 7, 5, 1, 9);
t4_content_first!(t4_content_type_xml_text, 7, 6, 1, 9);
t4_content_first!(t4_content_type_weak, 7, 7, 6, 10);
t4_content_first!(t4_content_type_subdoc, 7, 9, 1, 9);
t4_content_first!(t4_content_type_undefined, 7, 15, 1, 9);
t4_content_first!(t4_content_type_unknown, 7, 8, 1, 9);

/// Any content: `[len, tag, payload…]` with a concrete scalar tag per element.
fn t4_content_any_of<const N: usize>(tags: &[u8], widths: &[usize]) {
    let payload: [u8; N] = kani::any();
    let mut full = [0u8; 24];
    full[0] = tags.len() as u8;
    let mut pos = 1;
    let mut p = 0;
    let mut t = 0;
    while t < tags.len() {
        full[pos] = tags[t];
        pos += 1;
        let mut w = 0;
        while w < widths[t] {
            full[pos] = payload[p];
            pos += 1;
            p += 1;
            w += 1;
        }
        t += 1;
    }
    let mut d = DecoderV1::from(&full[..pos]);
    set_cap_limit(pos);
    let r = ItemContent::decode(&mut d, 8);
    clear_cap_limit();
    kani::cover!(r.is_ok(), "decoded");
    kani::cover!(true, "reach");
    std::mem::forget(r);
}
#[kani::proof]
#[kani::unwind(9)]
#[kani::stub(std::hash::RandomState::new, random_state_new)]
#[kani::stub(std::intrinsics::catch_unwind, catch_unwind_stub)]
#[kani::stub(std::str::from_utf8, from_utf8_model)]
#[kani::stub(std::vec::Vec::try_reserve, vec_try_reserve)]
fn t4_content_any_bool_int() {
    t4_content_any_of::<2>(&[120, 125], &[0, 2])
}
/// Any content header: arbitrary count, cut at the first stored element.
#[kani::proof]
#[kani::unwind(9)]
#[kani::stub(std::hash::RandomState::new, random_state_new)]
#[kani::stub(std::intrinsics::catch_unwind, catch_unwind_stub)]
#[kani::stub(std::vec::Vec::try_reserve, vec_try_reserve_cut)]
#[kani::stub(std::vec::Vec::with_capacity, vec_with_capacity_check_cut)]
#[kani::stub(std::vec::Vec::push, vec_push_cut)]
fn t4_content_any_hdr() {
    let buf: [u8; 6] = kani::any();
    let n = any_len(6);
    let mut d = DecoderV1::from(&buf[..n]);
    set_cap_limit(n);
    let r = ItemContent::decode(&mut d, 8);
    clear_cap_limit();
    kani::cover!(r.is_err(), "err");
    kani::cover!(true, "reach");
    std::mem::forget(r);
}

// ---------------------------------------------------------------------------------------------
// T5: Any::decode — the tag byte is concrete per instance, the payload arbitrary
// ---------------------------------------------------------------------------------------------
fn t5_any<const N: usize>(tag: u8) {
    let buf: [u8; N] = kani::any();
    let mut full = [0u8; 16];
    full[0] = tag;
    let mut i = 0;
    while i < N {
        full[i + 1] = buf[i];
        i += 1;
    }
    let mut len = 1;
    while len <= N + 1 {
        let mut c = Cursor::new(&full[..len]);
        set_cap_limit(len);
        let r = Any::decode(&mut c);
        clear_cap_limit();
        assert!(c.next <= len);
        kani::cover!(r.is_ok(), "decoded");
        kani::cover!(r.is_err(), "err");
        std::mem::forget(r);
        len += 1;
    }
    kani::cover!(true, "reach");
}

macro_rules! t5 {
    ($name:ident, $tag:expr, $n:expr, $unwind:expr) => {
        #[kani::proof]
        #[kani::unwind($unwind)]
        #[kani::stub(std::hash::RandomState::new, random_state_new)]
        #[kani::stub(std::str::from_utf8, from_utf8_model)]
        #[kani::stub(std::vec::Vec::with_capacity, vec_with_capacity)]
        #[kani::stub(std::vec::Vec::try_reserve, vec_try_reserve)]
        #[kani::stub(std::collections::HashMap::with_capacity, hashmap_with_capacity)]
        #[kani::stub(std::collections::HashMap::try_reserve, hashmap_try_reserve)]
        #[kani::stub(std::collections::HashMap::insert, hashmap_insert_cut)]
        fn $name() {
            t5_any::<$n>($tag)
        }
    };
}
t5!(t5_any_undefined, 127, 2, 12);
t5!(t5_any_null, 126, 2, 12);
t5!(t5_any_int, 125, 11, 13);
t5!(t5_any_f32, 124, 5, 12);
t5!(t5_any_f64, 123, 9, 12);
t5!(t5_any_bigint, 122, 9, 12);
t5!(t5_any_false, 121, 2, 12);
t5!(t5_any_true, 120, 2, 12);
t5!(t5_any_string, 119, 3, 12);
t5!(t5_any_buffer, 116, 6, 12);
t5!(t5_any_tag_0, 0, 2, 12);
t5!(t5_any_tag_115, 115, 2, 12);
t5!(t5_any_tag_128, 128, 2, 12);
t5!(t5_any_tag_255, 255, 2, 12);

/// Array / map headers: arbitrary count field (every byte string <= 6 after the tag); the path is
/// cut when the first element would be stored, so what is checked is the reservation.
macro_rules! t5_hdr {
    ($name:ident, $tag:expr) => {
        #[kani::proof]
        #[kani::unwind(12)]
        #[kani::stub(std::hash::RandomState::new, random_state_new)]
        #[kani::stub(std::vec::Vec::with_capacity, vec_with_capacity_check_cut)]
        #[kani::stub(std::vec::Vec::try_reserve, vec_try_reserve_cut)]
        #[kani::stub(std::vec::Vec::push, vec_push_cut)]
        #[kani::stub(std::collections::HashMap::with_capacity, hashmap_with_capacity)]
        #[kani::stub(std::collections::HashMap::try_reserve, hashmap_try_reserve_cut)]
        #[kani::stub(std::collections::HashMap::insert, hashmap_insert_cut)]
        fn $name() {
            let buf: [u8; 6] = kani::any();
            let mut full = [0u8; 8];
            full[0] = $tag;
            let mut i = 0;
            while i < 6 {
                full[i + 1] = buf[i];
                i += 1;
            }
            let mut c = Cursor::new(&full[..7]);
            set_cap_limit(7);
            let r = Any::decode(&mut c);
            clear_cap_limit();
            kani::cover!(r.is_err(), "err");
            kani::cover!(true, "reach");
            std::mem::forget(r);
        }
    };
}
t5_hdr!(t5_any_array_hdr, 117);
t5_hdr!(t5_any_map_hdr, 118);

/// Array of one or two scalar elements with concrete tags, arbitrary payload bytes.
fn t5_array_of<const N: usize>(tags: &[u8], widths: &[usize]) {
    let payload: [u8; N] = kani::any();
    let mut full = [0u8; 24];
    full[0] = 117;
    full[1] = tags.len() as u8;
    let mut pos = 2;
    let mut p = 0;
    let mut t = 0;
    while t < tags.len() {
        full[pos] = tags[t];
        pos += 1;
        let mut w = 0;
        while w < widths[t] {
            full[pos] = payload[p];
            pos += 1;
            p += 1;
            w += 1;
        }
        t += 1;
    }
    let mut c = Cursor::new(&full[..pos]);
    set_cap_limit(pos);
    let r = Any::decode(&mut c);
    clear_cap_limit();
    kani::cover!(r.is_ok(), "decoded");
    kani::cover!(true, "reach");
    std::mem::forget(r);
}

macro_rules! t5_arr {
    ($name:ident, $n:expr, $tags:expr, $widths:expr) => {
        #[kani::proof]
        #[kani::unwind(12)]
        #[kani::stub(std::hash::RandomState::new, random_state_new)]
        #[kani::stub(std::vec::Vec::try_reserve, vec_try_reserve)]
        #[kani::stub(std::collections::HashMap::try_reserve, hashmap_try_reserve)]
        #[kani::stub(std::collections::HashMap::insert, hashmap_insert_cut)]
        fn $name() {
            t5_array_of::<$n>($tags, $widths)
        }
    };
}
// [int(2 bytes), string(len byte + 2)], [bool, null], [bigint]
// fixed-width elements first (after a var-int element the next tag position is symbolic)
t5_arr!(t5_any_array_bool_null, 1, &[120, 126], &[0, 0]);
t5_arr!(t5_any_array_f64_int, 10, &[123, 125], &[8, 2]);
t5_arr!(t5_any_array_bigint_string, 11, &[122, 119], &[8, 3]);

// ---------------------------------------------------------------------------------------------
// T6: sticky index and sync-protocol messages
// ---------------------------------------------------------------------------------------------
fn t6_sticky<const N: usize>(tag: u8) {
    let buf: [u8; N] = kani::any();
    let mut full = [0u8; 16];
    full[0] = tag;
    let mut i = 0;
    while i < N {
        full[i + 1] = buf[i];
        i += 1;
    }
    let mut len = 1;
    while len <= N + 1 {
        let r = yrs::StickyIndex::decode_v1(&full[..len]);
        kani::cover!(r.is_ok(), "decoded");
        kani::cover!(r.is_err(), "err");
        std::mem::forget(r);
        len += 1;
    }
    kani::cover!(true, "reach");
}
/// Full-length variant: scope tag + every 10-byte string (room for a 53-bit-overflowing client id).
fn t6_sticky_full(tag: u8) {
    let buf: [u8; 10] = kani::any();
    let mut full = [0u8; 11];
    full[0] = tag;
    let mut i = 0;
    while i < 10 {
        full[i + 1] = buf[i];
        i += 1;
    }
    let r = yrs::StickyIndex::decode_v1(&full[..11]);
    kani::cover!(r.is_ok(), "decoded");
    kani::cover!(r.is_err(), "err");
    kani::cover!(true, "reach");
    std::mem::forget(r);
}
#[kani::proof]
#[kani::unwind(13)]
fn t6_sticky_relative_full() {
    t6_sticky_full(0)
}
#[kani::proof]
#[kani::unwind(13)]
fn t6_sticky_nested_full() {
    t6_sticky_full(2)
}

#[kani::proof]
#[kani::unwind(12)]
#[kani::stub(std::str::from_utf8, from_utf8_model)]
fn t6_sticky_relative() {
    t6_sticky::<5>(0)
}
#[kani::proof]
#[kani::unwind(12)]
#[kani::stub(std::str::from_utf8, from_utf8_model)]
fn t6_sticky_root() {
    t6_sticky::<3>(1)
}
#[kani::proof]
#[kani::unwind(12)]
#[kani::stub(std::str::from_utf8, from_utf8_model)]
fn t6_sticky_nested() {
    t6_sticky::<5>(2)
}
#[kani::proof]
#[kani::unwind(12)]
#[kani::stub(std::str::from_utf8, from_utf8_model)]
fn t6_sticky_bad_tag() {
    t6_sticky::<2>(3)
}

fn t6_message<const N: usize>(tag: u8) {
    use yrs::sync::protocol::Message;
    let buf: [u8; N] = kani::any();
    let mut full = [0u8; 16];
    // tags >= 128 are two-byte var-ints: both bytes concrete, so the decoded tag is constant
    let t = if tag >= 128 {
        full[0] = tag;
        full[1] = 1;
        2
    } else {
        full[0] = tag;
        1
    };
    let mut i = 0;
    while i < N {
        full[i + t] = buf[i];
        i += 1;
    }
    let mut len = 1;
    while len <= N + t {
        set_cap_limit(len);
        let r = Message::decode_v1(&full[..len]);
        clear_cap_limit();
        kani::cover!(r.is_ok(), "decoded");
        kani::cover!(r.is_err(), "err");
        std::mem::forget(r);
        len += 1;
    }
    kani::cover!(true, "reach");
}

macro_rules! t6_msg {
    ($name:ident, $tag:expr, $n:expr, $unwind:expr) => {
        #[kani::proof]
        #[kani::unwind($unwind)]
        #[kani::stub(std::hash::RandomState::new, random_state_new)]
        #[kani::stub(std::str::from_utf8, from_utf8_model)]
        #[kani::stub(std::vec::Vec::with_capacity, vec_with_capacity)]
        #[kani::stub(std::collections::HashMap::with_capacity, hashmap_with_capacity)]
        #[kani::stub(
            std::collections::HashMap::with_capacity_and_hasher,
            hashmap_with_capacity_and_hasher
        )]
        #[kani::stub(std::collections::HashMap::try_reserve, hashmap_try_reserve)]
        #[kani::stub(std::collections::HashMap::insert, hashmap_insert_cut)]
        fn $name() {
            t6_message::<$n>($tag)
        }
    };
}
t6_msg!(t6_msg_sync, 0, 4, 12);
t6_msg!(t6_msg_awareness, 1, 3, 12);
t6_msg!(t6_msg_auth, 2, 3, 12);
t6_msg!(t6_msg_query, 3, 2, 12);
t6_msg!(t6_msg_custom_4, 4, 3, 12);
t6_msg!(t6_msg_custom_200, 200, 3, 12); // bytes [0xC8, 0x01] = tag 200

// ---------------------------------------------------------------------------------------------
// T7: count fields vs. capacity requests of the map-backed wire types (path ends at the stub)
// ---------------------------------------------------------------------------------------------
macro_rules! t7_cap {
    ($name:ident, $n:expr, |$b:ident| $decode:expr) => {
        #[kani::proof]
        #[kani::unwind(12)]
        #[kani::stub(std::hash::RandomState::new, random_state_new)]
        #[kani::stub(std::vec::Vec::with_capacity, vec_with_capacity)]
        #[kani::stub(std::collections::HashMap::with_capacity, hashmap_with_capacity)]
        #[kani::stub(
            std::collections::HashMap::with_capacity_and_hasher,
            hashmap_with_capacity_and_hasher
        )]
        #[kani::stub(std::collections::HashMap::try_reserve, hashmap_try_reserve)]
        #[kani::stub(std::collections::HashMap::insert, hashmap_insert_cut)]
        #[kani::stub(std::collections::VecDeque::try_reserve, vecdeque_try_reserve)]
        fn $name() {
            let buf: [u8; $n] = kani::any();
            let n = any_len($n);
            let $b = &buf[..n];
            set_cap_limit(n);
            let ok: bool = $decode;
            clear_cap_limit();
            kani::cover!(ok, "ok (empty container)");
            kani::cover!(true, "reach");
        }
    };
}
t7_cap!(t7_state_vector_v1, 10, |b| {
    let r = yrs::StateVector::decode_v1(b);
    let ok = r.is_ok();
    std::mem::forget(r);
    ok
});
t7_cap!(t7_awareness_update_v1, 6, |b| {
    let r = yrs::sync::awareness::AwarenessUpdate::decode_v1(b);
    let ok = r.is_ok();
    std::mem::forget(r);
    ok
});


// ---------------------------------------------------------------------------------------------
// T8: "a value that was decoded successfully can be encoded again": decode with the real decoder,
// then run the real `Encode` impl against the recording Encoder (no heap buffer written at
// symbolic offsets, which is what made decode-then-encode with EncoderV1 explode).
// ---------------------------------------------------------------------------------------------
use crate::c13_model::RecorderN;

#[kani::proof]
#[kani::unwind(12)]
#[kani::stub(std::vec::Vec::try_reserve, vec_try_reserve)]
fn t8_id_range_reencode() {
    let buf: [u8; 5] = kani::any();
    let mut full = [0u8; 6];
    full[0] = 1; // one range
    let mut i = 0;
    while i < 5 {
        full[i + 1] = buf[i];
        i += 1;
    }
    let mut len = 1;
    while len <= 6 {
        let mut d = DecoderV1::from(&full[..len]);
        let r = <hook::IdRanges<()> as Decode>::decode(&mut d);
        if let Ok(r) = &r {
            let mut rec: RecorderN<32> = RecorderN::new();
            r.encode(&mut rec);
            kani::cover!(rec.n >= 3, "decoded and re-encoded");
        }
        std::mem::forget(r);
        len += 1;
    }
    kani::cover!(true, "reach");
}

fn t8_sticky<const N: usize>(tag: u8) {
    let buf: [u8; N] = kani::any();
    let mut full = [0u8; 16];
    full[0] = tag;
    let mut i = 0;
    while i < N {
        full[i + 1] = buf[i];
        i += 1;
    }
    let r = yrs::StickyIndex::decode_v1(&full[..N + 1]);
    if let Ok(s) = &r {
        let mut rec: RecorderN<32> = RecorderN::new();
        s.encode(&mut rec);
        kani::cover!(true, "decoded and re-encoded");
    }
    std::mem::forget(r);
    kani::cover!(true, "reach");
}
#[kani::proof]
#[kani::unwind(34)]
fn t8_sticky_relative_reencode() {
    t8_sticky::<10>(0)
}
#[kani::proof]
#[kani::unwind(34)]
fn t8_sticky_nested_reencode() {
    t8_sticky::<10>(2)
}
#[kani::proof]
#[kani::unwind(34)]
#[kani::stub(std::str::from_utf8, from_utf8_model)]
fn t8_sticky_root_reencode() {
    t8_sticky::<4>(1)
}

fn t8_any<const N: usize>(tag: u8) {
    let buf: [u8; N] = kani::any();
    let mut full = [0u8; 16];
    full[0] = tag;
    let mut i = 0;
    while i < N {
        full[i + 1] = buf[i];
        i += 1;
    }
    let mut c = Cursor::new(&full[..N + 1]);
    let r = Any::decode(&mut c);
    if let Ok(a) = &r {
        let mut rec: RecorderN<24> = RecorderN::new();
        a.encode(&mut rec);
        kani::cover!(true, "decoded and re-encoded");
    }
    std::mem::forget(r);
    kani::cover!(true, "reach");
}
macro_rules! t8_any_inst {
    ($name:ident, $tag:expr, $n:expr) => {
        #[kani::proof]
        #[kani::unwind(26)]
        #[kani::stub(std::hash::RandomState::new, random_state_new)]
        #[kani::stub(std::str::from_utf8, from_utf8_model)]
        fn $name() {
            t8_any::<$n>($tag)
        }
    };
}
t8_any_inst!(t8_any_f32_reencode, 124, 4);
t8_any_inst!(t8_any_f64_reencode, 123, 8);
t8_any_inst!(t8_any_bigint_reencode, 122, 8);

/// Blocks: decode (info byte concrete, in-bounds reader stubs as in T4) then `Block::encode`.
fn t8_block<const N: usize>(info: u8) {
    let buf: [u8; N] = kani::any();
    let mut full = [0u8; 16];
    full[0] = info;
    let mut i = 0;
    while i < N {
        full[i + 1] = buf[i];
        i += 1;
    }
    let id = any_id();
    let mut d = DecoderV1::from(&full[..N + 1]);
    let r = hook::decode_block(id, &mut d);
    match r {
        Ok(Some(b)) => {
            let mut rec: RecorderN<40> = RecorderN::new();
            b.encode(&mut rec);
            kani::cover!(true, "decoded and re-encoded");
            std::mem::forget(b);
        }
        Ok(None) => {}
        Err(e) => std::mem::forget(e),
    }
    kani::cover!(true, "reach");
}
macro_rules! t8_block_inst {
    ($name:ident, $info:expr, $n:expr) => {
        #[kani::proof]
        #[kani::unwind(42)]
        #[kani::stub(std::hash::RandomState::new, random_state_new)]
        #[kani::stub(std::intrinsics::catch_unwind, catch_unwind_stub)]
        #[kani::stub(std::str::from_utf8, from_utf8_model)]
        #[kani::stub(<yrs::encoding::read::Cursor as yrs::encoding::read::Read>::read_u8, cursor_read_u8_inb)]
        #[kani::stub(<yrs::encoding::read::Cursor as yrs::encoding::read::Read>::read_exact, cursor_read_exact_inb)]
        fn $name() {
            t8_block::<$n>($info)
        }
    };
}
t8_block_inst!(t8_block_gc_reencode, 0, 5);
t8_block_inst!(t8_block_skip_reencode, 10, 5);

/// Integer tag (125): the merged Ok/Err result of `read_var::<i64>` makes the discriminant of the
/// decoded `Any` symbolic, so the decoded number is extracted and re-wrapped (concrete discriminant)
/// before the real `Any::encode` runs on it; that the decoder returns nothing but `Number` is asserted.
fn t8_any_int<const N: usize>() {
    let buf: [u8; N] = kani::any();
    let mut full = [0u8; 16];
    full[0] = 125;
    let mut i = 0;
    while i < N {
        full[i + 1] = buf[i];
        i += 1;
    }
    let mut c = Cursor::new(&full[..N + 1]);
    let r = Any::decode(&mut c);
    if let Ok(a) = &r {
        let n = match a {
            Any::Number(n) => Some(*n),
            _ => None,
        };
        assert!(n.is_some(), "tag 125 decodes to a number");
        if let Some(n) = n {
            let b = Any::Number(n);
            let mut rec: RecorderN<24> = RecorderN::new();
            b.encode(&mut rec);
            kani::cover!(rec.n >= 2, "decoded and re-encoded");
            std::mem::forget(b);
        }
    }
    std::mem::forget(r);
    kani::cover!(true, "reach");
}
macro_rules! t8_any_int_inst {
    ($name:ident, $n:expr) => {
        #[kani::proof]
        #[kani::unwind(26)]
        #[kani::stub(std::hash::RandomState::new, random_state_new)]
        #[kani::stub(std::str::from_utf8, from_utf8_model)]
        fn $name() {
            t8_any_int::<$n>()
        }
    };
}
t8_any_int_inst!(t8_any_int2_reencode, 2);
t8_any_int_inst!(t8_any_int10_reencode, 10);

/// Buffer tag (116) with a concrete length byte: same re-wrapping as `t8_any_int` (the string
/// instance, tag 119, did not finish within 240 s and is not registered).
fn t8_any_bytes<const N: usize>(tag: u8) {
    let buf: [u8; N] = kani::any();
    let mut full = [0u8; 16];
    full[0] = tag;
    full[1] = N as u8;
    let mut i = 0;
    while i < N {
        full[i + 2] = buf[i];
        i += 1;
    }
    let mut c = Cursor::new(&full[..N + 2]);
    let r = Any::decode(&mut c);
    if let Ok(a) = &r {
        let b = match a {
            Any::String(s) => Some(Any::String(s.clone())),
            Any::Buffer(s) => Some(Any::Buffer(s.clone())),
            _ => None,
        };
        assert!(b.is_some(), "tags 119/116 decode to a string / buffer");
        if let Some(b) = b {
            let mut rec: RecorderN<24> = RecorderN::new();
            b.encode(&mut rec);
            kani::cover!(rec.n >= 2, "decoded and re-encoded");
            std::mem::forget(b);
        }
    }
    std::mem::forget(r);
    kani::cover!(true, "reach");
}
macro_rules! t8_any_bytes_inst {
    ($name:ident, $tag:expr, $n:expr) => {
        #[kani::proof]
        #[kani::unwind(26)]
        #[kani::stub(std::hash::RandomState::new, random_state_new)]
        #[kani::stub(std::str::from_utf8, from_utf8_model)]
        fn $name() {
            t8_any_bytes::<$n>($tag)
        }
    };
}
t8_any_bytes_inst!(t8_any_buffer2_reencode, 116, 2);
