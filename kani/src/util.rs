//! Shared helpers for the harnesses.
pub use crate::stubs::*;
pub use std::sync::Arc;
pub use yrs::block::{ClientID, ItemContent};
pub use yrs::encoding::read::{Cursor, Error, Read};
pub use yrs::encoding::write::Write;
pub use yrs::updates::decoder::{Decode, Decoder, DecoderV1, DecoderV2};
pub use yrs::updates::encoder::{Encode, Encoder, EncoderV1, EncoderV2};
pub use yrs::verif as hook;
pub use yrs::{Any, ID};

/// A 53-bit client id (the documented domain of `ClientID`).
pub fn any_client() -> ClientID {
    let c: u64 = kani::any();
    kani::assume(c < (1u64 << 53));
    ClientID::new(c)
}

pub fn any_id() -> ID {
    ID::new(any_client(), kani::any())
}

/// Symbolic prefix length of a buffer: `0..=N`.
pub fn any_len(max: usize) -> usize {
    let n: usize = kani::any();
    kani::assume(n <= max);
    n
}

/// Compare two byte slices without a memcmp loop of symbolic length: both lengths must be equal
/// and `<= MAX`; every position below the length is compared.
pub fn bytes_eq<const MAX: usize>(a: &[u8], b: &[u8]) -> bool {
    if a.len() != b.len() || a.len() > MAX {
        return false;
    }
    let mut i = 0;
    while i < MAX {
        if i < a.len() && a[i] != b[i] {
            return false;
        }
        i += 1;
    }
    true
}
