//! C13 — a snapshot restores the document exactly (mechanism level, DESIGN.md 4.3).
//!
//! S1: the cut block of `encode_state_from_snapshot` is written by `ItemSlice::encode` /
//! `ItemContent::encode_slice`. Differential between two pieces of real code: the bytes of the
//! slice encoding must equal the bytes of `Item::encode` of the middle piece produced by the real
//! `ItemPtr::splice` (whose round-trip is C09/R5's business).
//! S2: the request is refused on a store with GC enabled.
use crate::util::*;
use hook::{ItemBox, Parent};
use yrs::OffsetKind;

pub use crate::c13_model::*;

pub fn any_ids(len: u32) -> Ids {
    let id = any_id();
    // the item's clock range exists: clock + len does not overflow
    kani::assume(id.clock <= u32::MAX - len);
    Ids {
        id,
        origin: any_id(),
        right_origin: any_id(),
        parent: any_id(),
    }
}

/// `build_item` for harnesses: an empty item cannot be built (the path ends).
pub fn build_item_k(shape: Shape, ids: &Ids, content: ItemContent) -> ItemBox {
    build_item(shape, ids, content)
}

fn any_content3() -> (i64, bool, i64) {
    (kani::any(), kani::any(), kani::any())
}

fn any_cut(len: u32) -> (u32, u32) {
    let start: u32 = kani::any();
    let end: u32 = kani::any();
    kani::assume(start <= end && end < len);
    (start, end)
}

/// One S1 instance: concrete shape and content (container lengths concrete), symbolic ids,
/// clocks, scalar payloads and both cut positions.
macro_rules! s1 {
    ($name:ident, $shape:expr, $len:expr, $ref:expr, |$a:ident, $b:ident, $c:ident| $mk:expr, $model:expr) => {
        s1!($name, $shape, $len, $ref, |$a, $b, $c| $mk, $model, |s, e| true);
    };
    ($name:ident, $shape:expr, $len:expr, $ref:expr, |$a:ident, $b:ident, $c:ident| $mk:expr, $model:expr, |$s:ident, $e:ident| $cut_ok:expr) => {
        #[kani::proof]
        #[kani::unwind(14)]
        #[kani::stub(std::hash::RandomState::new, random_state_new)]
        #[kani::stub(std::intrinsics::catch_unwind, catch_unwind_stub)]
        #[kani::stub(<std::str::Chars as std::iter::Iterator>::count, chars_count_model)]
        fn $name() {
            let shape = SHAPES[$shape];
            let len: u32 = $len;
            let ids = any_ids(len);
            let ($a, $b, $c) = any_content3();
            let (start, end) = any_cut(len);
            {
                // cuts fall on character boundaries: a state-vector / snapshot clock is always the
                // end of an insert operation, never the middle of a surrogate pair
                let ($s, $e) = (start, end);
                kani::assume($cut_ok);
            }
            let whole = build_item(shape, &ids, $mk);
            assert!(whole.len() == len);
            let mut real = Recorder::new();
            whole.encode_slice(start, end, &mut real);
            let mut model = Recorder::new();
            model_encode_slice(&mut model, shape, &ids, $ref, &$model, start, end);
            assert_same_events(&real, &model);
            kani::cover!(start > 0 && end + 1 < len, "slice trimmed on both sides");
            kani::cover!(start == 0 && end + 1 == len, "untrimmed slice");
            kani::cover!(start == 0 && end == 0 && len > 1, "cut after the first unit");
            kani::cover!(true, "reach");
            std::mem::forget(whole);
        }
    };
}
// Deleted(5): ref 1
s1!(s1_deleted_sh0, 0, 5, 1, |a, b, c| ItemContent::Deleted(5), ContentModel::Deleted(5));
s1!(s1_deleted_sh1, 1, 5, 1, |a, b, c| ItemContent::Deleted(5), ContentModel::Deleted(5));
s1!(s1_deleted_sh2, 2, 5, 1, |a, b, c| ItemContent::Deleted(5), ContentModel::Deleted(5));
s1!(s1_deleted_sh3, 3, 5, 1, |a, b, c| ItemContent::Deleted(5), ContentModel::Deleted(5));
s1!(s1_deleted_sh4, 4, 5, 1, |a, b, c| ItemContent::Deleted(5), ContentModel::Deleted(5));
s1!(s1_deleted_sh5, 5, 5, 1, |a, b, c| ItemContent::Deleted(5), ContentModel::Deleted(5));
s1!(s1_deleted_sh6, 6, 5, 1, |a, b, c| ItemContent::Deleted(5), ContentModel::Deleted(5));
s1!(s1_deleted_sh7, 7, 5, 1, |a, b, c| ItemContent::Deleted(5), ContentModel::Deleted(5));
// String: ref 4. "abc" (3 units), "aé€" (3 units, 6 bytes), "a𝄞b" (4 units), "𝄞a" (3 units)
s1!(s1_string_abc_sh4, 4, 3, 4, |a, b, c| ItemContent::String("abc".into()), ContentModel::Str("abc"));
s1!(s1_string_abc_sh0, 0, 3, 4, |a, b, c| ItemContent::String("abc".into()), ContentModel::Str("abc"));
s1!(s1_string_abc_sh5, 5, 3, 4, |a, b, c| ItemContent::String("abc".into()), ContentModel::Str("abc"));
s1!(s1_string_wide_sh4, 4, 3, 4, |a, b, c| ItemContent::String("a\u{e9}\u{20ac}".into()),
    ContentModel::Str("a\u{e9}\u{20ac}"));
s1!(s1_string_wide_sh3, 3, 3, 4, |a, b, c| ItemContent::String("a\u{e9}\u{20ac}".into()),
    ContentModel::Str("a\u{e9}\u{20ac}"));
s1!(s1_string_astral_sh4, 4, 4, 4, |a, b, c| ItemContent::String("a\u{1d11e}b".into()),
    ContentModel::Str("a\u{1d11e}b"), |s, e| s != 2 && e != 1);
s1!(s1_string_astral_sh0, 0, 4, 4, |a, b, c| ItemContent::String("a\u{1d11e}b".into()),
    ContentModel::Str("a\u{1d11e}b"), |s, e| s != 2 && e != 1);
s1!(s1_string_astral2_sh5, 5, 3, 4, |a, b, c| ItemContent::String("\u{1d11e}a".into()),
    ContentModel::Str("\u{1d11e}a"), |s, e| s != 1 && e != 0);
s1!(s1_string_one_sh4, 4, 1, 4, |a, b, c| ItemContent::String("x".into()), ContentModel::Str("x"));
// Any: ref 8, three scalars with symbolic payloads
s1!(s1_any_sh4, 4, 3, 8, |a, b, c| {
    let mut v = Vec::with_capacity(4);
    v.push(Any::BigInt(a));
    v.push(Any::Bool(b));
    v.push(Any::BigInt(c));
    ItemContent::Any(v)
}, ContentModel::AnyScalars(&[Any::BigInt(a), Any::Bool(b), Any::BigInt(c)]));
s1!(s1_any_sh0, 0, 3, 8, |a, b, c| {
    let mut v = Vec::with_capacity(4);
    v.push(Any::BigInt(a));
    v.push(Any::Bool(b));
    v.push(Any::BigInt(c));
    ItemContent::Any(v)
}, ContentModel::AnyScalars(&[Any::BigInt(a), Any::Bool(b), Any::BigInt(c)]));
s1!(s1_any_sh6, 6, 2, 8, |a, b, c| {
    let mut v = Vec::with_capacity(4);
    v.push(Any::Bool(b));
    v.push(Any::BigInt(a));
    ItemContent::Any(v)
}, ContentModel::AnyScalars(&[Any::Bool(b), Any::BigInt(a)]));
// JSON: ref 2
s1!(s1_json_sh4, 4, 3, 2, |a, b, c| {
    let mut v = Vec::with_capacity(4);
    v.push(String::from("1"));
    v.push(String::from("[2]"));
    v.push(String::from("null"));
    ItemContent::JSON(v)
}, ContentModel::Json(&["1", "[2]", "null"]));
s1!(s1_json_sh1, 1, 3, 2, |a, b, c| {
    let mut v = Vec::with_capacity(4);
    v.push(String::from("1"));
    v.push(String::from("[2]"));
    v.push(String::from("null"));
    ItemContent::JSON(v)
}, ContentModel::Json(&["1", "[2]", "null"]));

// ---------------------------------------------------------------------------------------------
// S2: GC refusal
// ---------------------------------------------------------------------------------------------
#[kani::proof]
#[kani::unwind(8)]
#[kani::stub(std::hash::RandomState::new, random_state_new)]
#[kani::stub(std::intrinsics::catch_unwind, catch_unwind_stub)]
fn s2_gc_refusal() {
    let skip_gc: bool = kani::any();
    // built field by field: Options::default() seeds fastrand from the clock (a syscall)
    let options = yrs::Options {
        client_id: ClientID::new(1),
        guid: Arc::from("g"),
        collection_id: None,
        offset_kind: OffsetKind::Utf16,
        skip_gc,
        auto_load: false,
        should_load: true,
        cleanup_formatting: true,
    };
    let store = hook::store_new(&options);
    let snapshot = yrs::Snapshot::new(yrs::StateVector::default(), yrs::IdSet::new());
    let mut e = EncoderV1::new();
    let r = store.encode_state_from_snapshot(&snapshot, &mut e);
    let bytes = e.to_vec();
    if skip_gc {
        assert!(r.is_ok());
        // empty snapshot of an empty store: no clients, empty delete set
        assert!(bytes.len() == 2 && bytes[0] == 0 && bytes[1] == 0);
    } else {
        // a store with GC enabled refuses and writes nothing
        assert!(matches!(r, Err(yrs::error::Error::Gc)));
        assert!(bytes.is_empty());
    }
    kani::cover!(skip_gc, "gc disabled: encoded");
    kani::cover!(!skip_gc, "gc enabled: refused");
    kani::cover!(true, "reach");
    std::mem::forget((store, snapshot, bytes, r, options));
}


