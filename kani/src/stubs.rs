//! Stubs shared by the harnesses (DESIGN.md 3.2). Every stub is part of the claim.
use std::collections::{HashMap, TryReserveError, VecDeque};

/// Kani 0.68 ICEs on the `catch_unwind` intrinsic of its pinned toolchain; harnesses are
/// panic=abort, so unwinding is not modelled anyway.
pub unsafe fn catch_unwind_stub<T>(
    try_fn: unsafe fn(*mut T),
    data: *mut T,
    _catch_fn: unsafe fn(*mut T, *mut u8),
) -> bool {
    try_fn(data);
    false
}

/// `RandomState::new` ends in a getrandom syscall. Seeds are fixed; harnesses only construct
/// empty maps with it.
pub fn random_state_new() -> std::hash::RandomState {
    unsafe { std::mem::transmute([0u64; 2]) }
}

/// Error paths format messages with `format!`; the text is in no property.
pub fn fmt_format(_args: std::fmt::Arguments<'_>) -> String {
    String::new()
}

// ---------------------------------------------------------------------------------------------
// Allocation-limit stubs (C10): an *infallible* capacity request made while decoding must be
// bounded by the input length. `CAP_LIMIT` is set by the harness around the decode call.
// ---------------------------------------------------------------------------------------------
pub static mut CAP_LIMIT: usize = usize::MAX;

pub fn set_cap_limit(limit: usize) {
    unsafe { CAP_LIMIT = limit }
}
pub fn clear_cap_limit() {
    unsafe { CAP_LIMIT = usize::MAX }
}
fn check_cap(cap: usize) {
    let limit = unsafe { CAP_LIMIT };
    assert!(cap <= limit, "capacity request exceeds the input length");
}

pub fn vec_with_capacity<T>(cap: usize) -> Vec<T> {
    check_cap(cap);
    let mut v = Vec::new();
    if cap == 1024 {
        // `EncoderV1::new()`: keep the real pre-allocation, otherwise every push re-allocates
        v.reserve_exact(1024);
    }
    v
}

pub fn smallvec_with_capacity<A: smallvec::Array>(cap: usize) -> smallvec::SmallVec<A> {
    check_cap(cap);
    smallvec::SmallVec::new()
}

/// The map would be probed next (infeasible under Kani, DESIGN 2.3): path ends after the check.
pub fn hashmap_with_capacity<K, V>(cap: usize) -> HashMap<K, V> {
    check_cap(cap);
    kani::assume(cap == 0);
    HashMap::new()
}

pub fn hashmap_with_capacity_and_hasher<K, V, S>(cap: usize, hasher: S) -> HashMap<K, V, S> {
    check_cap(cap);
    kani::assume(cap == 0);
    HashMap::with_hasher(hasher)
}

/// Any insertion would probe the table (infeasible under Kani, DESIGN 2.3): the path ends here.
pub fn hashmap_insert_cut<K, V, S, A: std::alloc::Allocator>(
    _m: &mut HashMap<K, V, S, A>,
    _k: K,
    _v: V,
) -> Option<V> {
    kani::assume(false);
    unreachable!()
}

fn try_reserve_outcome() -> Result<(), TryReserveError> {
    // fallible reservation: the success outcome without reserving anything; the failure outcome
    // is an early `?` return and is not modelled (a TryReserveError cannot be built without
    // calling one of the stubbed functions)
    Ok(())
}

pub fn vec_try_reserve<T, A: std::alloc::Allocator>(
    _v: &mut Vec<T, A>,
    _additional: usize,
) -> Result<(), TryReserveError> {
    try_reserve_outcome()
}

pub fn vecdeque_try_reserve<T, A: std::alloc::Allocator>(
    _v: &mut VecDeque<T, A>,
    _additional: usize,
) -> Result<(), TryReserveError> {
    try_reserve_outcome()
}

pub fn hashmap_try_reserve<K, V, S, A: std::alloc::Allocator>(
    _m: &mut HashMap<K, V, S, A>,
    _additional: usize,
) -> Result<(), TryReserveError> {
    try_reserve_outcome()
}

/// Sub-document content needs ArcSwap/uuid/thread-locals: outside the bound.
pub fn doc_with_options_cut(_options: yrs::Options) -> yrs::Doc {
    kani::assume(false);
    unreachable!()
}

/// JSON text (v1 Embed/Format, serde_json) is third-party code outside the bound: any outcome.
pub fn any_from_json(_src: &str) -> Result<yrs::Any, yrs::encoding::read::Error> {
    if kani::any() {
        Ok(yrs::Any::Null)
    } else {
        Err(yrs::encoding::read::Error::UnexpectedValue)
    }
}

/// Ends the path at the first element pushed into a SmallVec (used to check a count field
/// without materialising the container).
pub fn smallvec_push_cut<A: smallvec::Array>(_v: &mut smallvec::SmallVec<A>, _value: A::Item) {
    kani::assume(false);
}

pub fn vec_push_cut<T, A: std::alloc::Allocator>(_v: &mut Vec<T, A>, _value: T) {
    kani::assume(false);
}

pub fn vec_with_capacity32<T>(cap: usize) -> Vec<T> {
    check_cap(cap);
    let mut v = Vec::new();
    if cap == 1024 {
        v.reserve_exact(32);
    }
    v
}

// ---------------------------------------------------------------------------------------------
// In-bounds reader stubs: the two primitive readers of `Cursor` with their end-of-buffer error
// replaced by an assumption. Used where a merged Ok/Err result would make an enum discriminant
// symbolic and drag every drop-glue arm into symbolic execution (DESIGN 2.4). The end-of-buffer
// behaviour of the real readers is decided separately (C10/T1).
// ---------------------------------------------------------------------------------------------
pub fn cursor_read_u8_inb<'a>(
    c: &mut yrs::encoding::read::Cursor<'a>,
) -> Result<u8, yrs::encoding::read::Error>
where
    'a: 'a,
{
    kani::assume(c.next < c.buf.len());
    let b = c.buf[c.next];
    c.next += 1;
    Ok(b)
}

pub fn cursor_read_exact_inb<'a>(
    c: &mut yrs::encoding::read::Cursor<'a>,
    len: usize,
) -> Result<&'a [u8], yrs::encoding::read::Error>
where
    'a: 'a,
{
    kani::assume(len <= c.buf.len() - c.next);
    let s = &c.buf[c.next..c.next + len];
    c.next += len;
    Ok(s)
}

// ---------------------------------------------------------------------------------------------
// `core::str::from_utf8` model. The std implementation validates word-at-a-time behind pointer
// alignment arithmetic, which CBMC cannot get through on a symbolic buffer (8 minutes and out of
// memory for 3 bytes). The model is a byte-wise validator of exactly the same language
// (Unicode 15 table 3-7, what `run_utf8_validation` implements). The error value carries no
// information the decoders use (they map it to `Error::UnexpectedValue`).
// ---------------------------------------------------------------------------------------------
fn utf8_cont(b: u8) -> bool {
    b & 0xC0 == 0x80
}

pub fn utf8_valid_model(v: &[u8]) -> bool {
    let n = v.len();
    let mut i = 0;
    while i < n {
        let b0 = v[i];
        if b0 < 0x80 {
            i += 1;
        } else if b0 >= 0xC2 && b0 <= 0xDF {
            if i + 1 >= n || !utf8_cont(v[i + 1]) {
                return false;
            }
            i += 2;
        } else if b0 >= 0xE0 && b0 <= 0xEF {
            if i + 2 >= n {
                return false;
            }
            let b1 = v[i + 1];
            let ok1 = match b0 {
                0xE0 => b1 >= 0xA0 && b1 <= 0xBF,
                0xED => b1 >= 0x80 && b1 <= 0x9F,
                _ => utf8_cont(b1),
            };
            if !ok1 || !utf8_cont(v[i + 2]) {
                return false;
            }
            i += 3;
        } else if b0 >= 0xF0 && b0 <= 0xF4 {
            if i + 3 >= n {
                return false;
            }
            let b1 = v[i + 1];
            let ok1 = match b0 {
                0xF0 => b1 >= 0x90 && b1 <= 0xBF,
                0xF4 => b1 >= 0x80 && b1 <= 0x8F,
                _ => utf8_cont(b1),
            };
            if !ok1 || !utf8_cont(v[i + 2]) || !utf8_cont(v[i + 3]) {
                return false;
            }
            i += 4;
        } else {
            return false;
        }
    }
    true
}

pub fn from_utf8_model(v: &[u8]) -> Result<&str, std::str::Utf8Error> {
    if utf8_valid_model(v) {
        Ok(unsafe { std::str::from_utf8_unchecked(v) })
    } else {
        let mut bad = [0xffu8];
        match std::str::from_utf8_mut(&mut bad) {
            Err(e) => Err(e),
            Ok(_) => unreachable!(),
        }
    }
}

/// End the path at a fallible reservation (used by the "count field vs. allocation" harnesses:
/// what they check is that no *infallible* capacity request is made from the count before).
pub fn vec_try_reserve_cut<T, A: std::alloc::Allocator>(
    _v: &mut Vec<T, A>,
    _additional: usize,
) -> Result<(), TryReserveError> {
    kani::assume(false);
    Ok(())
}
pub fn hashmap_try_reserve_cut<K, V, S, A: std::alloc::Allocator>(
    _m: &mut HashMap<K, V, S, A>,
    _additional: usize,
) -> Result<(), TryReserveError> {
    kani::assume(false);
    Ok(())
}

// ---------------------------------------------------------------------------------------------
// C16: SmallVec constructors with pre-reserved heap capacity. Semantically the same empty vector;
// the only difference is that pushes inside the operation under test never re-allocate
// (`SmallVec::try_grow` sends CBMC's array theory into an unbounded memory blow-up, DESIGN 2.4).
// ---------------------------------------------------------------------------------------------
pub const SV_SPARE: usize = 4;

pub fn smallvec_new_spare<A: smallvec::Array>() -> smallvec::SmallVec<A> {
    smallvec::SmallVec::from_vec(Vec::with_capacity(SV_SPARE))
}

/// Larger spare capacity for the valued (A2) instances, whose results have up to 2p+1 entries.
pub const SV_SPARE6: usize = 6;
pub fn smallvec_new_spare6<A: smallvec::Array>() -> smallvec::SmallVec<A> {
    smallvec::SmallVec::from_vec(Vec::with_capacity(SV_SPARE6))
}
pub fn smallvec_with_capacity_spare6<A: smallvec::Array>(n: usize) -> smallvec::SmallVec<A> {
    assert!(n <= SV_SPARE6);
    smallvec::SmallVec::from_vec(Vec::with_capacity(SV_SPARE6))
}

pub fn smallvec_with_capacity_spare<A: smallvec::Array>(n: usize) -> smallvec::SmallVec<A> {
    // requests are at most p + q here; keep the capacity concrete
    assert!(n <= SV_SPARE);
    smallvec::SmallVec::from_vec(Vec::with_capacity(SV_SPARE))
}

/// `SmallVec::push` when the capacity suffices (asserted): write + set_len, no growth path.
pub fn smallvec_push_nogrow<A: smallvec::Array>(v: &mut smallvec::SmallVec<A>, value: A::Item) {
    let len = v.len();
    assert!(len < v.capacity(), "spare capacity of the SmallVec model exhausted");
    unsafe {
        std::ptr::write(v.as_mut_ptr().add(len), value);
        v.set_len(len + 1);
    }
}

/// `SmallVec::insert` when the capacity suffices (asserted): element-wise shift instead of a
/// memmove with a symbolic byte count.
pub fn smallvec_insert_nogrow<A: smallvec::Array>(
    v: &mut smallvec::SmallVec<A>,
    index: usize,
    element: A::Item,
) {
    let len = v.len();
    assert!(index <= len, "insertion index out of bounds");
    assert!(len < v.capacity(), "spare capacity of the SmallVec model exhausted");
    unsafe {
        let p = v.as_mut_ptr();
        let mut i = len;
        while i > index {
            std::ptr::write(p.add(i), std::ptr::read(p.add(i - 1)));
            i -= 1;
        }
        std::ptr::write(p.add(index), element);
        v.set_len(len + 1);
    }
}

/// `SmallVec::remove`: element-wise shift.
pub fn smallvec_remove_shift<A: smallvec::Array>(
    v: &mut smallvec::SmallVec<A>,
    index: usize,
) -> A::Item {
    let len = v.len();
    assert!(index < len, "removal index out of bounds");
    unsafe {
        let p = v.as_mut_ptr();
        let item = std::ptr::read(p.add(index));
        let mut i = index;
        while i + 1 < len {
            std::ptr::write(p.add(i), std::ptr::read(p.add(i + 1)));
            i += 1;
        }
        v.set_len(len - 1);
        item
    }
}

/// `SmallVec::reserve` when the capacity suffices (asserted): no growth path.
pub fn smallvec_reserve_nogrow<A: smallvec::Array>(v: &mut smallvec::SmallVec<A>, additional: usize) {
    assert!(
        v.capacity() - v.len() >= additional,
        "spare capacity of the SmallVec model exhausted"
    );
}

/// `SmallVec::drain(lo..hi)` for callers that discard the drained elements (all of ids.rs): the
/// range is removed by element-wise shifting and an exhausted `Drain` over a leaked empty vector
/// is returned (a `Drain` cannot be constructed otherwise).
fn leak_empty_smallvec<'x, A: smallvec::Array + 'x>() -> &'x mut smallvec::SmallVec<A> {
    Box::leak(Box::new(smallvec::SmallVec::new()))
}

pub fn smallvec_drain_discard<A: smallvec::Array, R: std::ops::RangeBounds<usize>>(
    v: &mut smallvec::SmallVec<A>,
    range: R,
) -> smallvec::Drain<'_, A> {
    use std::ops::Bound::*;
    let len = v.len();
    let start = match range.start_bound() {
        Included(&n) => n,
        Excluded(&n) => n + 1,
        Unbounded => 0,
    };
    let end = match range.end_bound() {
        Included(&n) => n + 1,
        Excluded(&n) => n,
        Unbounded => len,
    };
    assert!(start <= end && end <= len, "drain range out of bounds");
    let removed = end - start;
    unsafe {
        let p = v.as_mut_ptr();
        let mut i = start;
        while i < end {
            std::ptr::drop_in_place(p.add(i));
            i += 1;
        }
        let mut i = end;
        while i < len {
            std::ptr::write(p.add(i - removed), std::ptr::read(p.add(i)));
            i += 1;
        }
        v.set_len(len - removed);
    }
    leak_empty_smallvec::<A>().drain(0..0)
}

/// Header harnesses: check the requested capacity, then end the path (what follows would decode
/// elements with symbolic tags).
pub fn vec_with_capacity_check_cut<T>(cap: usize) -> Vec<T> {
    check_cap(cap);
    kani::assume(false);
    Vec::new()
}

/// `str::chars().count()`: std counts word-at-a-time behind pointer-alignment arithmetic (like its
/// UTF-8 validator), which CBMC cannot execute on a slice of symbolic length. Byte-wise model of
/// the same function: the number of bytes that are not UTF-8 continuation bytes.
pub fn chars_count_model<'a>(it: std::str::Chars<'a>) -> usize
where
    'a: 'a,
{
    let b = it.as_str().as_bytes();
    let mut n = 0;
    let mut i = 0;
    while i < b.len() {
        if b[i] & 0xC0 != 0x80 {
            n += 1;
        }
        i += 1;
    }
    n
}
