//! Kani proof harnesses over the real yrs code. See /verif/DESIGN.md.
#![cfg_attr(kani, feature(allocator_api))]
#![allow(dead_code, unused_imports, unused_macros, unused_variables, static_mut_refs)]

#[cfg(kani)]
mod seed;
#[cfg(kani)]
mod stubs;
#[cfg(kani)]
mod util;
#[cfg(kani)]
mod c10;
#[cfg(kani)]
mod c16;
#[cfg(kani)]
mod c09;
#[cfg(y_crdt_y_crdt_verif)]
mod c13_model;
#[cfg(kani)]
mod c13;
