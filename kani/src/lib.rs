//! Kani proof harnesses over the real yrs code. See /verif/DESIGN.md.
#![cfg_attr(kani, feature(allocator_api))]
#![allow(dead_code, unused_imports, unused_macros, unused_variables, static_mut_refs)]

#[cfg(kani)]
mod seed;
#[cfg(kani)]
mod stubs;
#[cfg(kani)]
mod util;
#[cfg(kani)]
mod c10;
