#!/bin/bash
# dev helper: run one harness, print compact summary. usage: run1.sh <harness> [timeout_s] [target-dir-suffix]
H="$1"; T="${2:-600}"; S="${3:-t0}"
L=/verif/.work/run1_$(echo "$H" | tr ':' '_').log
cd /verif/kani
START=$(date +%s)
CARGO_NET_OFFLINE=true RUSTFLAGS="--cfg y_crdt_y_crdt_verif" timeout "$T" cargo kani --target-dir /verif/.work/$S -Z stubbing --harness "$H" --exact > "$L" 2>&1
RC=$?
END=$(date +%s)
echo "== $H rc=$RC wall=$((END-START))s log=$L"
grep -n "^error" -A6 "$L" | cut -c1-220 | head -40
grep "Runtime Symex\|Verification Time\|VERIFICATION" "$L" | tr '\n' ' '; echo
grep "^ \*\* " "$L"
grep "Status: FAILURE" -B1 -A2 "$L" | grep -v "^--" | cut -c1-260 | head -${4:-40}
grep "\.cover\." -A2 "$L" | grep "Status\|Description" | paste - - | cut -c1-120 | head -20
