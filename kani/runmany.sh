#!/bin/bash
# dev helper: run many harnesses in parallel (own target dirs), compact summaries.
# usage: runmany.sh <timeout_s> <jobs> harness...
T="$1"; J="$2"; shift 2
i=0
for h in "$@"; do echo "$h t_$((i % J))"; i=$((i+1)); done > /verif/.work/runmany.list
# one worker per slot so target dirs are never shared concurrently
for s in $(seq 0 $((J-1))); do
  ( grep " t_$s\$" /verif/.work/runmany.list | while read h d; do /verif/kani/run1.sh "$h" "$T" "$d" 8; done ) &
done
wait
